//go:build verif

package mcap

import (
	"io"
)

// vMultiChunk writes schema + two channels (topics "a","b") + n messages whose log times are all symbolic,
// with a chunk size that closes a chunk after every per-th message. Sequence numbers are concrete tags.
// Returns the writer (for ChunkIndexes), the file and the messages written.
// vMultiChunkGrow: message payloads (and with them chunk sizes) grow along the file instead of being equal.
var vMultiChunkGrow bool

// vMultiChunkTime, when set, supplies the log time of message i instead of a fresh symbolic value.
var vMultiChunkTime func(i int) uint64

func vMultiChunk(n, per int, cfg, skip int) (*Writer, []byte, []*Message) {
	opts := vOptions(cfg|1, skip, int64(32*per-1))
	sink := &vSink{failAt: -1}
	w, err := NewWriter(sink, opts)
	vAssert(err == nil, "NewWriter")
	vAssert(w.WriteHeader(&Header{}) == nil, "header")
	vAssert(w.WriteSchema(&Schema{ID: 1, Name: "s"}) == nil, "schema")
	vAssert(w.WriteChannel(&Channel{ID: 1, SchemaID: 1, Topic: "a"}) == nil, "channel a")
	vAssert(w.WriteChannel(&Channel{ID: 2, SchemaID: 0, Topic: "b"}) == nil, "channel b")
	var msgs []*Message
	for i := 0; i < n; i++ {
		dn := 1
		if vMultiChunkGrow {
			dn = 1 + 8*i // chunk sizes grow along the file (one message per chunk when per == 1)
		}
		var lt uint64
		if vMultiChunkTime != nil {
			lt = vMultiChunkTime(i)
		} else {
			lt = vSymU64(vN("t", i))
		}
		m := &Message{ChannelID: uint16(1 + i%2), Sequence: uint32(i), LogTime: lt, PublishTime: uint64(i), Data: vSymBytes(vN("d", i), dn, dn)}
		if vKnown("C04-K1") {
			vAssume(m.LogTime != ^uint64(0))
		}
		vAssert(w.WriteMessage(m) == nil, "message")
		msgs = append(msgs, m)
	}
	vAssert(w.Close() == nil, "close")
	return w, sink.b, msgs
}

// chunkOf returns, for each message tag, the index of the chunk (in file order) that holds it.
func vChunkOf(w *Writer, msgs []*Message) []int {
	// the writer closes a chunk once its uncompressed size exceeds ChunkSize; recompute the partition from the
	// chunk indexes' uncompressed sizes: message records are 32 bytes, the first chunk also holds 3 other records.
	out := make([]int, len(msgs))
	mi := 0
	for ci, c := range w.ChunkIndexes {
		sz := int(c.UncompressedSize)
		if ci == 0 {
			sz -= (9 + 2 + 4 + 1 + 4 + 4) + (9 + 2 + 2 + 4 + 1 + 4 + 4) + (9 + 2 + 2 + 4 + 1 + 4 + 4)
		}
		for k := 0; k < sz/32; k++ {
			if mi < len(out) {
				out[mi] = ci
				mi++
			}
		}
	}
	return out
}

// C03: time-ordered reads are exact sorts, exactly once, stable for ties within a chunk, repeatable.
// params: n (messages), per (messages per chunk), rev (0 log-time order, 1 reverse)
func VC03Order() {
	n, per, rev := vParam("n"), vParam("per"), vParam("rev")
	w, file, msgs := vMultiChunk(n, per, 2, 0)
	chunkOf := vChunkOf(w, msgs)
	order := LogTimeOrder
	if rev == 1 {
		order = ReverseLogTimeOrder
	}
	var first []uint32
	for round := 0; round < 2; round++ {
		r, err := NewReader(vNewSource(file))
		vAssert(err == nil, "NewReader")
		it, err := r.Messages(InOrder(order))
		vAssert(err == nil, "Messages(InOrder)")
		seen := make([]bool, n)
		var last uint64
		lastTag := -1
		cnt := 0
		for {
			_, c, m, err := it.NextInto(nil)
			if err != nil {
				vAssert(err == io.EOF, "ends with EOF")
				break
			}
			tag := int(m.Sequence)
			vAssert(tag >= 0 && tag < n, "tag in range")
			vAssert(!seen[tag], "message returned once")
			seen[tag] = true
			vAssert(m.LogTime == msgs[tag].LogTime, "message carries its own time")
			vAssert(c.ID == msgs[tag].ChannelID, "message carries its own channel")
			if cnt > 0 {
				if rev == 0 {
					vAssert(m.LogTime >= last, "non-decreasing log time")
				} else {
					vAssert(m.LogTime <= last, "non-increasing log time")
				}
				// ties inside one chunk keep file order (reverse file order when reversed)
				if chunkOf[tag] == chunkOf[lastTag] {
					if rev == 0 {
						vAssert(vImplies(m.LogTime == last, tag > lastTag), "ties keep file order")
					} else {
						vAssert(vImplies(m.LogTime == last, tag < lastTag), "ties keep reverse file order")
					}
				}
			}
			last, lastTag = m.LogTime, tag
			if round == 0 {
				first = append(first, m.Sequence)
			} else {
				vAssert(cnt < len(first) && first[cnt] == m.Sequence, "repeated read gives the same sequence")
			}
			cnt++
		}
		vAssert(cnt == n, "every message returned")
	}
	vReach("end")
}

// C03, heavy ties in long queues: n messages (per per chunk) whose log times are base+pattern(i) for one symbolic
// 64-bit base and a concrete small pattern with many equal values, so that the pending-index queue is far longer
// than any small-input special case of a library sort (a dozen entries) while the comparisons stay decidable
// without forking. Asserts sortedness, exactly-once, and file order among ALL pairs of equal-time messages of one
// chunk (not only adjacent ones), and repeatability.
// params: n, per, pat (0: 2,1,0,2,1,0..; 1: all equal; 2: 0,1,0,1..; 3: 1,1,1,5x8,9,9,9 | 3,5x7,7,9,9,9), rev
func VC03Ties() {
	n, per, pat, rev := vParam("n"), vParam("per"), vParam("pat"), vParam("rev")
	base := vSymU64("base")
	vAssume(base < ^uint64(0)-16)
	two := []uint64{1, 1, 1, 5, 5, 5, 5, 5, 5, 5, 5, 9, 9, 9, 3, 5, 5, 5, 5, 5, 5, 5, 7, 9, 9, 9}
	vMultiChunkTime = func(i int) uint64 {
		switch pat {
		case 0:
			return base + uint64(2-i%3)
		case 1:
			return base
		case 2:
			return base + uint64(i%2)
		}
		return base + two[i%len(two)]
	}
	w, file, msgs := vMultiChunk(n, per, 2, 0)
	vMultiChunkTime = nil
	chunkOf := vChunkOf(w, msgs)
	order := LogTimeOrder
	if rev == 1 {
		order = ReverseLogTimeOrder
	}
	var first []int
	for round := 0; round < 2; round++ {
		r, err := NewReader(vNewSource(file))
		vAssert(err == nil, "NewReader")
		it, err := r.Messages(InOrder(order))
		vAssert(err == nil, "Messages(InOrder)")
		seen := make([]bool, n)
		var got []int
		for {
			_, _, m, err := it.NextInto(nil)
			if err != nil {
				vAssert(err == io.EOF, "ends with EOF")
				break
			}
			tag := int(m.Sequence)
			vAssert(tag >= 0 && tag < n, "tag in range")
			vAssert(!seen[tag], "message returned once")
			seen[tag] = true
			vAssert(m.LogTime == msgs[tag].LogTime, "message carries its own time")
			if len(got) > 0 {
				last := msgs[got[len(got)-1]].LogTime
				if rev == 0 {
					vAssert(m.LogTime >= last, "non-decreasing log time")
				} else {
					vAssert(m.LogTime <= last, "non-increasing log time")
				}
			}
			got = append(got, tag)
		}
		vAssert(len(got) == n, "every message returned")
		for i := 0; i < len(got); i++ {
			for j := i + 1; j < len(got); j++ {
				a, b := got[i], got[j]
				if chunkOf[a] != chunkOf[b] {
					continue
				}
				if rev == 0 {
					vAssert(vImplies(msgs[a].LogTime == msgs[b].LogTime, a < b), "ties keep file order (any two messages of a chunk)")
				} else {
					vAssert(vImplies(msgs[a].LogTime == msgs[b].LogTime, a > b), "ties keep reverse file order (any two messages of a chunk)")
				}
			}
		}
		if round == 0 {
			first = got
		} else {
			for i := range got {
				vAssert(first[i] == got[i], "repeated read gives the same sequence")
			}
		}
	}
	vReach("end")
}
