//go:build verif

package mcap

import (
	"io"
)

// vOverlapDepth: the largest number of chunks whose (closed) time ranges all contain a common instant, which
// for intervals equals the largest set of pairwise-overlapping chunks. Computed from the chunk indexes the
// writer produced (their times are symbolic terms).
func vOverlapDepth(cis []*ChunkIndex) uint64 {
	var best uint64
	for i := range cis {
		var cnt uint64
		for j := range cis {
			in := vAnd(cis[j].MessageStartTime <= cis[i].MessageStartTime, cis[i].MessageStartTime <= cis[j].MessageEndTime)
			cnt += vIte(in, 1, 0)
		}
		best = vIte(cnt > best, cnt, best)
	}
	return best
}

// C20 (index-based clause): at every moment of an index-based read the number of decompressed chunk buffers
// held is at most the overlap depth of the chunk time ranges (1 in file order).
// params: n, per (file shape: n messages, per per chunk), ord (0 file, 1 log time, 2 reverse), win (1: plus a symbolic time window), grow (1: chunk sizes grow along the file)
func VC20Slots() {
	n, per, ord := vParam("n"), vParam("per"), vParam("ord")
	vMultiChunkGrow = vParam("grow") == 1
	w, file, msgs := vMultiChunk(n, per, 2, 0)
	vMultiChunkGrow = false
	var depth uint64 = 1
	if ord != 0 {
		depth = vOverlapDepth(w.ChunkIndexes)
	}
	r, err := NewReader(vNewSource(file))
	vAssert(err == nil, "NewReader")
	var ropts []ReadOpt
	switch ord {
	case 1:
		ropts = append(ropts, InOrder(LogTimeOrder))
	case 2:
		ropts = append(ropts, InOrder(ReverseLogTimeOrder))
	}
	// win=1: a symbolic time window [s,e) is applied as well (messages outside it are never yielded, and must not
	// keep their chunk's buffer alive)
	win := vParam("win") == 1
	var ws, we uint64
	if win {
		ws, we = vSymU64("ws"), vSymU64("we")
		vAssume(ws <= we)
		ropts = append(ropts, AfterNanos(ws), BeforeNanos(we))
	}
	mi, err := r.Messages(ropts...)
	vAssert(err == nil, "Messages")
	it, ok := mi.(*indexedMessageIterator)
	vAssert(ok, "the index is used")
	cnt := 0
	maxChunk := 0
	for _, ci := range w.ChunkIndexes {
		if int(ci.UncompressedSize) > maxChunk {
			maxChunk = int(ci.UncompressedSize)
		}
	}
	var lastT uint64
	nsel := 0
	for {
		_, _, m, err := it.NextInto(nil)
		if err == nil {
			// (C03/C04 under a window, checked here because this harness already reads windowed multi-chunk files in
			// every order) the read is sorted and returns only messages inside the window
			if cnt > 0 && ord == 1 {
				vAssert(m.LogTime >= lastT, "windowed read: non-decreasing log time")
			}
			if cnt > 0 && ord == 2 {
				vAssert(m.LogTime <= lastT, "windowed read: non-increasing log time")
			}
			lastT = m.LogTime
			if win {
				vAssert(vAnd(m.LogTime >= ws, m.LogTime < we), "windowed read: message inside the window")
			}
		}
		// inspect the iterator after every step, successful or not
		live := 0
		for i := range it.chunkSlots {
			if it.chunkSlots[i].unreadMessages > 0 {
				live++
			}
			vAssert(cap(it.chunkSlots[i].buf) <= maxChunk, "a chunk slot is no larger than the largest chunk")
		}
		vAssert(uint64(len(it.chunkSlots)) <= depth, "decompressed chunks held <= overlap depth of the chunk time ranges")
		vAssert(uint64(live) <= depth, "chunks with unread messages <= overlap depth")
		if err != nil {
			vAssert(err == io.EOF, "ends with EOF")
			break
		}
		cnt++
	}
	if !win {
		vAssert(cnt == n, "every message returned")
	} else {
		// exactly the messages inside the window are returned
		var want uint64
		for _, mm := range msgs {
			want += vIte(vAnd(mm.LogTime >= ws, mm.LogTime < we), 1, 0)
		}
		vAssert(uint64(cnt) == want, "windowed read: exactly the messages inside the window")
	}
	_ = nsel
	for i := range it.chunkSlots {
		vAssert(it.chunkSlots[i].unreadMessages == 0, "no slot is left marked as holding unread messages")
	}
	vReach("end")
}

// C20 (sequential clause): a validating lexer keeps one chunk buffer, reused when large enough, never larger
// than twice the largest chunk; a non-validating lexer keeps none.
// params: tpl, cs, validate
func VC20Lexer() {
	tpl, cs, validate := vParam("tpl"), vParam("cs"), vParam("validate")
	wl := vMakeWorkload(tpl, 1, 2, 0)
	w, file := vWriteAll(wl, vOptions(3, 0, int64(cs)))
	maxChunk := 0
	for _, ci := range w.ChunkIndexes {
		if int(ci.UncompressedSize) > maxChunk {
			maxChunk = int(ci.UncompressedSize)
		}
	}
	lex, err := NewLexer(vNewSource(file), &LexerOptions{ValidateChunkCRCs: validate == 1})
	vAssert(err == nil, "NewLexer")
	prevCap, grows := 0, 0
	for {
		_, rec, err := lex.Next(nil)
		c := cap(lex.uncompressedChunk)
		if c != prevCap {
			vAssert(c > prevCap, "the chunk buffer is only ever replaced by a larger one")
			grows++
			prevCap = c
		}
		vAssert(c <= 2*maxChunk, "the chunk buffer is at most twice the largest chunk")
		if validate == 0 {
			vAssert(c == 0, "a non-validating lexer keeps no chunk buffer")
		}
		if err != nil {
			break
		}
		vAssert(len(rec) <= maxChunk+64, "a returned record is no larger than a chunk or top-level record")
	}
	vAssert(grows <= len(w.ChunkIndexes), "no more buffer growths than chunks")
	vReach("end")
}

// C20 (attachments): an attachment streams through the writer and through the lexer without any single
// allocation that grows with its size: with the allocation ceiling set to lim bytes (well below the data size)
// writing and reading back succeed, so no buffer of the attachment's size was ever requested.
// params: size (data bytes), lim (ceiling for any single allocation), crc, cb (1: read through the attachment callback; 0: no callback)
func VC20Attachment() {
	size, lim := vParam("size"), vParam("lim")
	data := vSymBytes("data", size, size)
	// the sink is sized up front so that (natively) its growth is not counted inside the limited windows
	sink := &vSink{failAt: -1, b: make([]byte, 0, size+4096)}
	w, err := NewWriter(sink, vOptions(vParam("cfg"), 0, 1000))
	vAssert(err == nil, "NewWriter")
	vAssert(w.WriteHeader(&Header{}) == nil, "header")
	vAllocLimit(lim)
	err = w.WriteAttachment(&Attachment{LogTime: 1, CreateTime: 2, Name: "n", MediaType: "m", DataSize: uint64(size), Data: vNewSource(data)})
	vAllocLimit(1<<31 - 1)
	vAssert(err == nil, "WriteAttachment")
	vAssert(w.Close() == nil, "close")
	vReach("written")
	// read back, consuming the data in small pieces
	got := 0
	same := true
	buf := make([]byte, 4096)
	if vParam("cb") == 0 {
		// no attachment callback: the lexer (and the non-indexed iterator built on it) must skip the attachment
		// without materialising it
		lex, err := NewLexer(vNewSource(sink.b))
		vAssert(err == nil, "NewLexer")
		for {
			vAllocLimit(lim)
			_, _, err := lex.Next(nil)
			vAllocLimit(1<<31 - 1)
			if err != nil {
				vAssert(err == io.EOF, "lexer reaches EOF")
				break
			}
		}
		r, err := NewReader(vReadOnly{vNewSource(sink.b)})
		vAssert(err == nil, "NewReader")
		it, err := r.Messages(UsingIndex(false))
		vAssert(err == nil, "Messages")
		vAllocLimit(lim)
		_, _, _, err = it.NextInto(nil)
		vAllocLimit(1<<31 - 1)
		vAssert(err == io.EOF, "no message, EOF")
		vReach("end")
		return
	}
	lex, err := NewLexer(vNewSource(sink.b), &LexerOptions{ComputeAttachmentCRCs: vParam("crc") == 1, AttachmentCallback: func(ar *AttachmentReader) error {
		vAllocLimit(lim)
		for {
			k, err := ar.Data().Read(buf)
			if k > 0 {
				same = vAnd(same, vBytesEq(buf[:k], data[got:got+k]))
				got += k
			}
			if err != nil {
				break
			}
		}
		return nil
	}})
	vAssert(err == nil, "NewLexer")
	for {
		vAllocLimit(lim)
		_, _, err := lex.Next(nil)
		vAllocLimit(1<<31 - 1)
		if err != nil {
			break
		}
	}
	vAssert(got == size, "all attachment data streamed back")
	vAssert(same, "attachment data unaltered")
	vReach("end")
}
