//go:build verif

package mcap

import (
	"fmt"
	"runtime"
	"testing"
)

// TestVerifReplay runs the harness named in $VERIF_REPLAY against the natively compiled code with the
// solver's input assignment and prints what happened as VERIF-RESULT lines.
func TestVerifReplay(_ *testing.T) {
	vLoadReplay()
	h := vHarnesses[vReplay.harness]
	if h == nil {
		fmt.Println("VERIF-RESULT noharness " + vReplay.harness)
		return
	}
	var ms0, ms1 runtime.MemStats
	runtime.ReadMemStats(&ms0)
	kind, detail := "ok", ""
	func() {
		defer func() {
			if r := recover(); r != nil {
				if s, ok := r.(vStop); ok {
					kind, detail = s.kind, s.detail
				} else {
					kind, detail = "panic", fmt.Sprint(r)
				}
			}
		}()
		h()
		vAllocWindowCheck()
	}()
	runtime.ReadMemStats(&ms1)
	for _, l := range vReplay.out {
		fmt.Println("VERIF-RESULT " + l)
	}
	// total bytes allocated is only a usable native proxy for "one allocation above the ceiling" at the 2 GiB ceiling
	// (for a small caller-configured ceiling: total allocation far above it - the engine picks such models - is taken as
	// confirmation; legitimate totals stay near the ceiling)
	if kind == "ok" && vAllocCeiling < 1<<30 && ms1.TotalAlloc-ms0.TotalAlloc > 2*vAllocCeiling+16384 {
		kind, detail = "alloc", fmt.Sprintf("%d bytes allocated during the harness under a ceiling of %d", ms1.TotalAlloc-ms0.TotalAlloc, vAllocCeiling)
	}
	if kind == "ok" && vAllocCeiling >= 1<<30 && ms1.TotalAlloc-ms0.TotalAlloc > vAllocCeiling {
		kind, detail = "alloc", fmt.Sprintf("%d bytes allocated during the harness", ms1.TotalAlloc-ms0.TotalAlloc)
	}
	fmt.Println("VERIF-RESULT " + kind + " " + detail)
}
