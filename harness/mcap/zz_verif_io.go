//go:build verif

package mcap

import (
	"errors"
	"io"
)

// ---------- sink: append-only io.Writer, optionally failing at write index failAt ----------

var vErrSink = errors.New("verif: injected sink failure")
var vErrSource = errors.New("verif: injected source failure")

type vSink struct {
	b       []byte
	n       int  // number of Write calls so far
	failAt  int  // index of the failing Write call (-1: never)
	shortN  int  // bytes accepted by the failing call (0 <= shortN <= len(p))
	sticky  bool // every later call fails too
	failed  bool
	lastLen int
	hookAt  int    // index of the Write call during which hook runs (before the bytes are taken); used only when hook != nil
	hook    func() // stands for "another goroutine ran while this Write was in progress" (C13 instance isolation)
}

func (s *vSink) Write(p []byte) (int, error) {
	i := s.n
	s.n++
	if s.hook != nil && vFork(i == s.hookAt) {
		h := s.hook
		s.hook = nil
		h()
	}
	if i == s.failAt || (s.sticky && s.failed) {
		first := !s.failed
		s.failed = true
		if !first {
			return 0, vErrSink // a destination that has stopped accepting bytes accepts none later
		}
		// the accepted count is made concrete by a counting loop (one path per value) so that the sink's
		// length stays a concrete number under the symbolic engine
		k := 0
		for k < s.shortN && k < len(p) {
			k++
		}
		s.b = append(s.b, p[:k]...)
		return k, vErrSink
	}
	s.b = append(s.b, p...)
	return len(p), nil
}

// ---------- source: Read/Seek over a byte slice with optional truncation and faults ----------

type vSource struct {
	b     []byte
	pos   int64
	limit int64 // end of data (cut point); <0: len(b)
	errAt int64 // position at which Read fails with vErrSource (sticky); <0: never
	// fragmentation: the read call with index shortAt returns at most shortN bytes (>=1)
	calls   int
	shortAt int
	shortN  int
	maxRead int  // every read returns at most maxRead bytes (0: unlimited)
	eofWith bool // deliver final bytes together with io.EOF
	errWith bool // deliver the last bytes before errAt together with the error (else on the next call)
	badByte bool // errAt is one unreadable byte: reads that do not touch it succeed (seeking readers can get past it)
	seekErr int  // index of the Seek call that fails (-1: never)
	seeks   int
}

func vNewSource(b []byte) *vSource {
	return &vSource{b: b, limit: int64(len(b)), errAt: -1, shortAt: -1, seekErr: -1}
}

func (s *vSource) Read(p []byte) (int, error) {
	call := s.calls
	s.calls++
	// every comparison against a (possibly symbolic) fault position is decided by forking (vFork), so that
	// stream positions and read counts stay concrete numbers on every path
	if s.errAt >= 0 && vFork(s.pos >= s.errAt) && (!s.badByte || vFork(s.pos == s.errAt)) {
		return 0, vErrSource
	}
	if vFork(s.pos >= s.limit) {
		return 0, io.EOF
	}
	if len(p) == 0 {
		return 0, nil
	}
	end := s.limit
	if s.errAt >= 0 && vFork(s.errAt < end) && (!s.badByte || vFork(s.errAt > s.pos)) {
		end = s.errAt
	}
	n := int64(len(p))
	if vFork(n > end-s.pos) {
		n = int64(vConcretize(int(end-s.pos), len(p)))
	}
	if vFork(call == s.shortAt) && vFork(int64(s.shortN) < n) {
		n = int64(vConcretize(s.shortN, len(p)))
	}
	if s.maxRead > 0 && int64(s.maxRead) < n {
		n = int64(s.maxRead)
	}
	copy(p[:n], s.b[s.pos:s.pos+n])
	s.pos += n
	if s.errWith && s.errAt >= 0 && vFork(s.pos >= s.errAt) {
		return int(n), vErrSource
	}
	if s.eofWith && vFork(s.pos >= s.limit) && (s.errAt < 0 || vFork(s.errAt >= s.limit)) {
		return int(n), io.EOF
	}
	return int(n), nil
}

func (s *vSource) Seek(off int64, whence int) (int64, error) {
	k := s.seeks
	s.seeks++
	if k == s.seekErr {
		return 0, vErrSource
	}
	var np int64
	switch whence {
	case io.SeekStart:
		np = off
	case io.SeekCurrent:
		np = s.pos + off
	case io.SeekEnd:
		np = s.limit + off
	}
	if vFork(np < 0) {
		return 0, errors.New("verif: negative seek")
	}
	if !vFork(np >= s.limit) {
		// a position inside the data is made concrete (one path per value): reads there must stay concrete
		np = int64(vConcretize(int(np), 256))
	}
	s.pos = np
	return np, nil
}

// vReadOnly hides Seek (a non-seekable source).
type vReadOnly struct{ s *vSource }

// vSourceLen / vReadOnlyLen: the same sources, additionally exposing what bytes.Reader, bytes.Buffer and
// strings.Reader expose (Len: bytes left, Size: total) - a reader may look for these optional methods, and what it
// returns must not depend on whether the source has them. Both are symbolic when the cut position is.
type vSourceLen struct{ *vSource }

func (r vSourceLen) Len() int    { return int(r.limit - r.pos) }
func (r vSourceLen) Size() int64 { return r.limit }

type vReadOnlyLen struct{ s *vSource }

func (r vReadOnlyLen) Read(p []byte) (int, error) { return r.s.Read(p) }
func (r vReadOnlyLen) Len() int                   { return int(r.s.limit - r.s.pos) }
func (r vReadOnlyLen) Size() int64                { return r.s.limit }

// vSourceSized: harness switch - hand the sized variants to the code under test
var vSourceSized bool

func (r vReadOnly) Read(p []byte) (int, error) { return r.s.Read(p) }

// ---------- a caller-supplied codec: XOR 0x5a (stands for "custom compressor + matching decompressor") ----------

type vXorWriter struct{ w io.Writer }

func (x *vXorWriter) Write(p []byte) (int, error) {
	q := make([]byte, len(p))
	for i := range p {
		q[i] = p[i] ^ 0x5a
	}
	return x.w.Write(q)
}
func (x *vXorWriter) Close() error      { return nil }
func (x *vXorWriter) Reset(w io.Writer) { x.w = w }

type vXorReader struct{ r io.Reader }

func (x *vXorReader) Read(p []byte) (int, error) {
	n, err := x.r.Read(p)
	for i := 0; i < n; i++ {
		p[i] ^= 0x5a
	}
	return n, err
}
func (x *vXorReader) Reset(r io.Reader) error { x.r = r; return nil }

// ---------- workload templates ----------

type vAtt struct {
	logTime, createTime uint64
	name, mediaType     string
	data                []byte
}

const (
	vKSchema = iota + 1
	vKChannel
	vKMessage
	vKAttachment
	vKMetadata
)

type vRec struct {
	kind    int
	schema  *Schema
	channel *Channel
	msg     *Message
	att     *vAtt
	md      *Metadata
}

type vWorkload struct {
	header Header
	recs   []vRec
}

func vStr(name string, n int) string { return string(vSymBytes(name, n, n)) }

func vSchemaRec(tag string, id uint16, ln int) vRec {
	return vRec{kind: vKSchema, schema: &Schema{ID: id, Name: vStr(tag+"_name", ln), Encoding: vStr(tag+"_enc", ln), Data: vSymBytes(tag+"_data", ln+1, ln+1)}}
}

func vChannelRec(tag string, id, schemaID uint16, ln int, nmeta int) vRec {
	c := &Channel{ID: id, SchemaID: schemaID, Topic: vStr(tag+"_topic", ln), MessageEncoding: vStr(tag+"_menc", ln)}
	if nmeta >= 0 {
		c.Metadata = map[string]string{}
		for i := 0; i < nmeta; i++ {
			c.Metadata[vStr(vN(tag+"_mk", i), 1)] = vStr(vN(tag+"_mv", i), 1)
		}
	}
	return vRec{kind: vKChannel, channel: c}
}

func vMessageRec(tag string, ch uint16, ln int) vRec {
	return vRec{kind: vKMessage, msg: &Message{ChannelID: ch, Sequence: vSymU32(tag + "_seq"), LogTime: vSymU64(tag + "_log"), PublishTime: vSymU64(tag + "_pub"), Data: vSymBytes(tag+"_data", ln, ln)}}
}

func vAttachmentRec(tag string, ln int, dn int) vRec {
	return vRec{kind: vKAttachment, att: &vAtt{logTime: vSymU64(tag + "_log"), createTime: vSymU64(tag + "_create"), name: vStr(tag+"_name", ln), mediaType: vStr(tag+"_mt", ln), data: vSymBytes(tag+"_data", dn, dn)}}
}

func vMetadataRec(tag string, ln int, nk int) vRec {
	md := &Metadata{Name: vStr(tag+"_name", ln), Metadata: map[string]string{}}
	for i := 0; i < nk; i++ {
		md.Metadata[vStr(vN(tag+"_k", i), 1)] = vStr(vN(tag+"_v", i), 2)
	}
	return vRec{kind: vKMetadata, md: md}
}

// vMakeWorkload builds template tpl with every value symbolic. ln is the string length class (0,1,3),
// pn the payload length class. Ids: idv=0 uses 1,2; idv=1 uses 65535 / 0-schema boundary ids.
func vMakeWorkload(tpl, ln, pn, idv int) *vWorkload {
	wl := &vWorkload{header: Header{Profile: vStr("h_profile", ln), Library: vStr("h_library", ln)}}
	s1, c1, c2 := uint16(1), uint16(1), uint16(2)
	if idv == 1 {
		s1, c1, c2 = 65535, 65535, 0
	}
	switch tpl {
	case 0: // NoData
	case 1: // OneMessage
		wl.recs = []vRec{vSchemaRec("s1", s1, ln), vChannelRec("c1", c1, s1, ln, 1), vMessageRec("m1", c1, pn)}
	case 2: // OneSchemalessMessage
		wl.recs = []vRec{vChannelRec("c1", c1, 0, ln, 0), vMessageRec("m1", c1, pn)}
	case 3: // OneAttachment
		wl.recs = []vRec{vAttachmentRec("a1", ln, pn)}
	case 4: // OneMetadata
		wl.recs = []vRec{vMetadataRec("d1", ln, 2)}
	case 5: // schema, two channels, three messages, first channel re-written identically
		ca := vChannelRec("c1", c1, s1, ln, 1)
		wl.recs = []vRec{vSchemaRec("s1", s1, ln), ca, vChannelRec("c2", c2, 0, ln, -1),
			vMessageRec("m1", c1, pn), vMessageRec("m2", c2, pn+1), ca, vMessageRec("m3", c1, 0)}
	case 6: // mixed: schema, channel, msg, attachment, msg, metadata, channel, msg
		wl.recs = []vRec{vSchemaRec("s1", s1, ln), vChannelRec("c1", c1, s1, ln, 0), vMessageRec("m1", c1, pn),
			vAttachmentRec("a1", ln, pn), vMessageRec("m2", c1, pn), vMetadataRec("d1", ln, 1),
			vChannelRec("c2", c2, s1, ln, 1), vMessageRec("m3", c2, pn)}
	case 8: // small messages, then one whose record is larger than the chunk size, then a small one (pn = the large payload)
		wl.recs = []vRec{vSchemaRec("s1", s1, ln), vChannelRec("c1", c1, s1, ln, 0), vMessageRec("m1", c1, 1), vMessageRec("m2", c1, 1),
			vMessageRec("m3", c1, pn), vMessageRec("m4", c1, 1)}
	case 7: // two attachments and two metadata records, order among themselves matters
		wl.recs = []vRec{vAttachmentRec("a1", ln, pn), vMetadataRec("d1", ln, 1), vAttachmentRec("a2", ln, 0), vMetadataRec("d2", ln, 0)}
	}
	return wl
}

// vOptions builds writer options. cfg bits (concrete): 1 chunked, 2 crc, 4 xor codec, 8 skipMagic, 16 overrideLibrary,
// 32 (with 4) the codec is registered under a 22-byte compression name.
// skip: -1 = all Skip* flags symbolic; otherwise a concrete bitmask
// (1 msgidx, 2 stats, 4 repSchemas, 8 repChannels, 16 attIdx, 32 mdIdx, 64 chunkIdx, 128 sumOffsets).
func vOptions(cfg, skip int, chunkSize int64) *WriterOptions {
	o := &WriterOptions{
		Chunked:         cfg&1 != 0,
		IncludeCRC:      cfg&2 != 0,
		SkipMagic:       cfg&8 != 0,
		OverrideLibrary: cfg&16 != 0,
		ChunkSize:       chunkSize,
	}
	if cfg&4 != 0 {
		o.Compressor = NewCustomCompressor(vXorName(cfg), &vXorWriter{})
	}
	if skip >= 1000 {
		// skip-1000 is the mask of flags that are symbolic; the others are off
		mask := skip - 1000
		pick := func(bit int, name string) bool {
			if mask&bit != 0 {
				return vSymBool(name)
			}
			return false
		}
		o.SkipMessageIndexing = pick(1, "skipMsgIdx")
		o.SkipStatistics = pick(2, "skipStats")
		o.SkipRepeatedSchemas = pick(4, "skipRepSchemas")
		o.SkipRepeatedChannelInfos = pick(8, "skipRepChannels")
		o.SkipAttachmentIndex = pick(16, "skipAttIdx")
		o.SkipMetadataIndex = pick(32, "skipMdIdx")
		o.SkipChunkIndex = pick(64, "skipChunkIdx")
		o.SkipSummaryOffsets = pick(128, "skipSumOff")
	} else if skip < 0 {
		o.SkipMessageIndexing = vSymBool("skipMsgIdx")
		o.SkipStatistics = vSymBool("skipStats")
		o.SkipRepeatedSchemas = vSymBool("skipRepSchemas")
		o.SkipRepeatedChannelInfos = vSymBool("skipRepChannels")
		o.SkipAttachmentIndex = vSymBool("skipAttIdx")
		o.SkipMetadataIndex = vSymBool("skipMdIdx")
		o.SkipChunkIndex = vSymBool("skipChunkIdx")
		o.SkipSummaryOffsets = vSymBool("skipSumOff")
	} else {
		o.SkipMessageIndexing = skip&1 != 0
		o.SkipStatistics = skip&2 != 0
		o.SkipRepeatedSchemas = skip&4 != 0
		o.SkipRepeatedChannelInfos = skip&8 != 0
		o.SkipAttachmentIndex = skip&16 != 0
		o.SkipMetadataIndex = skip&32 != 0
		o.SkipChunkIndex = skip&64 != 0
		o.SkipSummaryOffsets = skip&128 != 0
	}
	return o
}

// vXorName: the compression name of the harness codec; cfg bit 32 selects a 22-byte name (longer than the
// built-in names, still legal: compression is a free-form string).
func vXorName(cfg int) CompressionFormat {
	if cfg&32 != 0 {
		return "xor_long_name_22_bytes"
	}
	return "xor"
}

func vDecompressors(cfg int) map[CompressionFormat]ResettableReader {
	if cfg&4 != 0 {
		return map[CompressionFormat]ResettableReader{vXorName(cfg): &vXorReader{}}
	}
	return nil
}

// vExcludeKnownTimes: while known finding C04-K1 (a message with log time 2^64-1 is never returned, because the
// default window end is an exclusive 2^64-1) is listed, harnesses of other properties assume it away; the C04
// check itself reports it. When the entry becomes "fixed:", the assumption disappears.
func vExcludeKnownTimes(wl *vWorkload) {
	if !vKnown("C04-K1") {
		return
	}
	for i := range wl.recs {
		if wl.recs[i].kind == vKMessage {
			vAssume(wl.recs[i].msg.LogTime != ^uint64(0))
		}
	}
}

// vWriteRec performs one writer call.
func vWriteRec(w *Writer, r *vRec) error {
	switch r.kind {
	case vKSchema:
		return w.WriteSchema(r.schema)
	case vKChannel:
		return w.WriteChannel(r.channel)
	case vKMessage:
		return w.WriteMessage(r.msg)
	case vKAttachment:
		return w.WriteAttachment(&Attachment{LogTime: r.att.logTime, CreateTime: r.att.createTime, Name: r.att.name,
			MediaType: r.att.mediaType, DataSize: uint64(len(r.att.data)), Data: vNewSource(r.att.data)})
	case vKMetadata:
		return w.WriteMetadata(r.md)
	}
	return nil
}

// vWriteAll writes the whole workload through the real writer and returns the bytes; every call must succeed.
func vWriteAll(wl *vWorkload, opts *WriterOptions) (*Writer, []byte) {
	sink := &vSink{failAt: -1}
	w, err := NewWriter(sink, opts)
	vAssert(err == nil, "NewWriter succeeds")
	vAssert(w.WriteHeader(&wl.header) == nil, "WriteHeader succeeds")
	for i := range wl.recs {
		vAssert(vWriteRec(w, &wl.recs[i]) == nil, "write call succeeds")
	}
	vAssert(w.Close() == nil, "Close succeeds")
	// the differential on the file bytes is only possible where no byte depends on a CRC value (the engine's CRC is
	// uninterpreted): checksums off and no attachment in the workload
	hasAtt := false
	for i := range wl.recs {
		hasAtt = hasAtt || wl.recs[i].kind == vKAttachment
	}
	if !opts.IncludeCRC && !hasAtt {
		vObserveBytes("written_file", sink.b)
	}
	return w, sink.b
}

// vObserveBytes: engine-vs-native differential. The engine evaluates length and a rolling hash of b under the
// witness model; the native replay computes the same from the real code's output and must agree.
func vObserveBytes(label string, b []byte) {
	vObserve(label+"_len", uint64(len(b)))
	// byte sum and position-weighted byte sum (kept to additions: cheap for the term layer and the solver)
	var h, g uint64
	for i := range b {
		h += uint64(b[i])
		if i%3 == 0 {
			g += uint64(b[i])
		}
	}
	vObserve(label+"_sum", h)
	vObserve(label+"_sum3", g)
}

func vExpectedLibrary(opts *WriterOptions, h *Header) string {
	if opts.OverrideLibrary {
		return h.Library
	}
	lib := "mcap-go/" + Version[1:]
	if h.Library != "" && h.Library != lib {
		lib += "; " + h.Library
	}
	return lib
}

func vMapEq(a, b map[string]string) bool {
	if len(a) != len(b) {
		return false
	}
	ok := true
	for k, v := range a {
		w, found := b[k]
		ok = vAnd(ok, vAnd(found, vStrEq(v, w)))
	}
	return ok
}

func vSchemaEq(a, b *Schema) bool {
	return vAnd(vAnd(a.ID == b.ID, vStrEq(a.Name, b.Name)), vAnd(vStrEq(a.Encoding, b.Encoding), vBytesEq(a.Data, b.Data)))
}

func vChannelEq(a, b *Channel) bool {
	return vAnd(vAnd(vAnd(a.ID == b.ID, a.SchemaID == b.SchemaID), vAnd(vStrEq(a.Topic, b.Topic), vStrEq(a.MessageEncoding, b.MessageEncoding))), vMapEq(a.Metadata, b.Metadata))
}

func vMessageEq(a, b *Message) bool {
	return vAnd(vAnd(vAnd(a.ChannelID == b.ChannelID, a.Sequence == b.Sequence), vAnd(a.LogTime == b.LogTime, a.PublishTime == b.PublishTime)), vBytesEq(a.Data, b.Data))
}
