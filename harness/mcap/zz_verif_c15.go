//go:build verif

package mcap

import (
	"errors"
	"io"
)

// vIndexedMessages reads messages through Reader.Messages with the given order (index used when available).
func vIndexedMessages(src io.ReadSeeker, ord int) ([]vMsgOut, error) {
	r, err := NewReader(src)
	if err != nil {
		return nil, err
	}
	var ropts []ReadOpt
	switch ord {
	case 1:
		ropts = append(ropts, InOrder(LogTimeOrder))
	case 2:
		ropts = append(ropts, InOrder(ReverseLogTimeOrder))
	}
	it, err := r.Messages(ropts...)
	if err != nil {
		return nil, err
	}
	var out []vMsgOut
	for {
		s, c, m, err := it.NextInto(nil)
		if err != nil {
			return out, err
		}
		o := vMsgOut{cid: c.ID, m: *m}
		if s != nil {
			o.sid, o.hasS = s.ID, true
		}
		out = append(out, o)
	}
}

func vMsgsEqual(got, ref []vMsgOut, label string) {
	vAssert(len(got) == len(ref), label+": same number of messages")
	vMsgsPrefix(got, ref, label)
}

// vC15File writes the workload for C15 (concrete log times for the time-ordered indexed reads would hide
// nothing here: delivery is what varies; all values stay symbolic).
func vC15File(tpl, cfg, cs int) []byte { return vC15FileSkip(tpl, cfg, cs, 0) }

func vC15FileSkip(tpl, cfg, cs, skip int) []byte {
	wl := vMakeWorkload(tpl, 1, 2, 0)
	opts := vOptions(cfg, skip, int64(cs))
	w, file := vWriteAll(wl, opts)
	vAssumeChunkCRCsNonZero(w, file, opts.IncludeCRC)
	return file
}

// C15 (a)-(d): what is read does not depend on how the source delivers the bytes.
// params: tpl, cfg, cs, validate, rd (0 lexer, 1 non-indexed iterator, 2 indexed file order, 3 indexed log-time order),
// mode: 0 = one short read at symbolic call index J (jlo <= J < jhi) of symbolic size K (1 <= K <= kmax)
//       1 = every read returns at most mr bytes
//       2 = the last bytes arrive together with io.EOF (optionally with mr)
func VC15Frag() {
	tpl, cfg, cs, validate, rd, mode := vParam("tpl"), vParam("cfg"), vParam("cs"), vParam("validate"), vParam("rd"), vParam("mode")
	file := vC15File(tpl, cfg, cs)
	lopts := &LexerOptions{ValidateChunkCRCs: validate == 1, Decompressors: vDecompressors(cfg)}
	src := vNewSource(file)
	switch mode {
	case 0:
		J := vSymInt("J")
		vAssume(vAnd(J >= vParam("jlo"), J < vParam("jhi")))
		K := vSymInt("K")
		vAssume(vAnd(K >= 1, K <= vParam("kmax")))
		src.shortAt, src.shortN = J, K
	case 1:
		src.maxRead = vParam("mr")
	case 2:
		src.eofWith = true
		src.maxRead = vParam("mr")
	}
	switch rd {
	case 0:
		ref, rerr := vLexEvents(vNewSource(file), lopts)
		vAssert(rerr == io.EOF, "plain lex ends with EOF")
		got, gerr := vLexEvents(src, lopts)
		vAssert(gerr == io.EOF, "fragmented lex ends with EOF")
		vAssert(len(got) == len(ref), "fragmented lex returns the same number of records")
		vEventsPrefix(got, ref, false, "lexer")
	case 1:
		ref, rerr := vIterMessages(vReadOnly{vNewSource(file)})
		vAssert(rerr == io.EOF, "plain iteration ends with EOF")
		got, gerr := vIterMessages(vReadOnly{src})
		vAssert(gerr == io.EOF, "fragmented iteration ends with EOF")
		vMsgsEqual(got, ref, "iterator")
	default:
		ref, rerr := vIndexedMessages(vNewSource(file), rd-2)
		vAssert(rerr == io.EOF, "plain indexed read ends with EOF")
		got, gerr := vIndexedMessages(src, rd-2)
		vAssert(gerr == io.EOF, "fragmented indexed read ends with EOF")
		vMsgsEqual(got, ref, "indexed")
	}
	if mode == 0 {
		// the short read did happen on this path unless J is beyond the last read
		if src.calls > vParam("jlo") {
			vReach("short-read-hit")
		}
	}
	vReach("end")
}

// C15 (e): a source I/O error at any position: records before it are a prefix of the true sequence and the
// read ends with an error that is not end-of-file.
// params: tpl, cfg, cs, validate, rd, lo, hi (cell of the error position E), with (1: last bytes and error in one call)
func VC15Err() {
	tpl, cfg, cs, validate, rd := vParam("tpl"), vParam("cfg"), vParam("cs"), vParam("validate"), vParam("rd")
	lo, hi := vParam("lo"), vParam("hi")
	file := vC15File(tpl, cfg, cs)
	if lo >= len(file) {
		vReach("end")
		return
	}
	lopts := &LexerOptions{ValidateChunkCRCs: validate == 1, Decompressors: vDecompressors(cfg)}
	E := vSymInt("E")
	vAssume(vAnd(vAnd(E >= lo, E < hi), E < len(file)))
	src := vNewSource(file)
	src.errAt = int64(E)
	src.errWith = vParam("with") == 1
	// readers that seek get the more general fault: byte E alone is unreadable (a reader that never touches it must
	// return the complete result; sequential readers cannot get past it, for them it is the sticky error)
	src.badByte = rd >= 2
	var gerr error
	switch rd {
	case 0:
		ref, rerr := vLexEvents(vNewSource(file), lopts)
		vAssert(rerr == io.EOF, "plain lex ends with EOF")
		var got []vEvent
		got, gerr = vLexEvents(src, lopts)
		vEventsPrefix(got, ref, true, "lexer")
	case 1:
		ref, rerr := vIterMessages(vReadOnly{vNewSource(file)})
		vAssert(rerr == io.EOF, "plain iteration ends with EOF")
		var got []vMsgOut
		got, gerr = vIterMessages(vReadOnly{src})
		vMsgsPrefix(got, ref, "iterator")
	default:
		ref, rerr := vIndexedMessages(vNewSource(file), rd-2)
		vAssert(rerr == io.EOF, "plain indexed read ends with EOF")
		var got []vMsgOut
		got, gerr = vIndexedMessages(src, rd-2)
		vMsgsPrefix(got, ref, "indexed")
		if gerr == io.EOF {
			// the reader never needed the unreadable byte (it lies in a part of the file an index-based read skips):
			// then the result must be complete
			vAssert(len(got) == len(ref), "an index-based read that ends cleanly returned every message")
			vReach("bad-byte-not-needed")
			vReach("end")
			return
		}
	}
	vAssert(gerr != nil, "a read over a failing source ends with an error")
	vAssert(gerr != io.EOF && !errors.Is(gerr, io.EOF), "a source I/O error is never reported as a clean end-of-file")
	vReach("end")
}

// C15 (seek failures): the Seek call with symbolic index S fails: an index-based read (and Info) ends with an
// error - never a clean end-of-file, never a crash - and the messages returned before it are a prefix.
// params: tpl, cfg, cs, ord, skip, slo, shi (cell of S)
func VC15Seek() {
	tpl, cfg, cs, ord := vParam("tpl"), vParam("cfg"), vParam("cs"), vParam("ord")
	// skip: Skip* mask of the writer (64 = no chunk indexes: Messages() then falls back to a scan after seeking back)
	file := vC15FileSkip(tpl, cfg, cs, vParam("skip"))
	ref, rerr := vIndexedMessages(vNewSource(file), ord)
	vAssert(rerr == io.EOF, "plain indexed read ends with EOF")
	S := vSymInt("S")
	vAssume(vAnd(S >= vParam("slo"), S < vParam("shi")))
	src := vNewSource(file)
	src.seekErr = vConcretize(S, 64)
	got, gerr := vIndexedMessages(src, ord)
	vMsgsPrefix(got, ref, "indexed")
	if src.seeks > src.seekErr {
		// the failing Seek did happen
		vAssert(gerr != nil && gerr != io.EOF && !errors.Is(gerr, io.EOF), "a failed Seek is reported as an error, not as end-of-file")
		vReach("seek-failed")
	} else {
		vAssert(gerr == io.EOF && len(got) == len(ref), "without the fault the read is the plain one")
	}
	vReach("end")
}
