//go:build verif

package mcap

import "hash/crc32"

// A strict MCAP decoder/validator written from the specification (website/docs/spec/index.md) only. It shares
// no code with the library: its own little-endian readers, its own record walk, its own field layouts. It is the
// oracle of C05/C06 (and validates the encoder used by C11/C12). Every structural requirement is a vAssert with
// a label starting "spec:". It is executed symbolically like any other harness code.

func sU16(b []byte, o int) uint16 { return uint16(b[o]) | uint16(b[o+1])<<8 }
func sU32(b []byte, o int) uint32 {
	return uint32(b[o]) | uint32(b[o+1])<<8 | uint32(b[o+2])<<16 | uint32(b[o+3])<<24
}
func sU64(b []byte, o int) uint64 {
	return uint64(b[o]) | uint64(b[o+1])<<8 | uint64(b[o+2])<<16 | uint64(b[o+3])<<24 |
		uint64(b[o+4])<<32 | uint64(b[o+5])<<40 | uint64(b[o+6])<<48 | uint64(b[o+7])<<56
}

// sLen reads a length/offset field that the layout makes concrete and returns it as int.
func sLen32(b []byte, o int, what string) int {
	vAssert(o+4 <= len(b), "spec: room for the length of "+what)
	return int(sU32(b, o))
}

// sStr returns the bytes of a 4-byte-length-prefixed string at o and the offset after it.
func sStr(b []byte, o int, what string) ([]byte, int) {
	n := sLen32(b, o, what)
	vAssert(n >= 0 && o+4+n <= len(b), "spec: "+what+" fits in its record")
	return b[o+4 : o+4+n], o + 4 + n
}

// sMapEnd returns the offset after a 4-byte-byte-length-prefixed map of string pairs, checking it tiles exactly.
func sMapEnd(b []byte, o int, what string) int {
	n := sLen32(b, o, what)
	vAssert(n >= 0 && o+4+n <= len(b), "spec: "+what+" fits in its record")
	p, end := o+4, o+4+n
	for p < end {
		_, p = sStr(b, p, what+" key")
		_, p = sStr(b, p, what+" value")
	}
	vAssert(p == end, "spec: "+what+" entries tile its byte length exactly")
	return end
}

var sMagic = []byte{0x89, 'M', 'C', 'A', 'P', 0x30, '\r', '\n'}

type sRec struct {
	op    byte
	start int // offset of the opcode byte in the file (or in the uncompressed chunk data)
	n     int // content length
	body  []byte
}

func (r *sRec) end() int { return r.start + 9 + r.n }

type sChunk struct {
	rec                  sRec
	startT, endT, usize  uint64
	crc                  uint32
	comp                 string
	recordsOff, recordsN int // stored (compressed) records: offset in file, length
	data                 []byte
	inner                []sRec
	msgIdx               []sRec // message index records that follow the chunk
}

type sFile struct {
	b        []byte
	skipMag  bool
	data     []sRec // data section, header first, DataEnd last
	chunks   []*sChunk
	summary  []sRec
	offsets  []sRec
	footer   sRec
	dataEnd  sRec
	sumStart int // offset of first summary record (== offset after DataEnd)
}

// sWalk reads one record at offset o of b.
func sWalk(b []byte, o int, where string) sRec {
	vAssert(o+9 <= len(b), "spec: room for a record header "+where)
	n64 := sU64(b, o+1)
	vAssert(n64 <= uint64(len(b)), "spec: record length within the file "+where)
	n := int(n64)
	vAssert(o+9+n <= len(b), "spec: record content within bounds "+where)
	return sRec{op: b[o], start: o, n: n, body: b[o+9 : o+9+n]}
}

// sExactSchema etc.: the content of a record is exactly its declared fields (the writer emits no trailing bytes).
func sCheckBody(r *sRec) {
	b := r.body
	switch r.op {
	case 0x01: // header: profile, library
		_, p := sStr(b, 0, "header profile")
		_, p = sStr(b, p, "header library")
		vAssert(p == len(b), "spec: header content is exactly its fields")
	case 0x03: // schema: id, name, encoding, data
		vAssert(len(b) >= 2, "spec: schema has an id")
		vAssert(sU16(b, 0) != 0, "spec: schema id is not zero")
		_, p := sStr(b, 2, "schema name")
		_, p = sStr(b, p, "schema encoding")
		_, p = sStr(b, p, "schema data")
		vAssert(p == len(b), "spec: schema content is exactly its fields")
	case 0x04: // channel: id, schema id, topic, message encoding, metadata map
		vAssert(len(b) >= 4, "spec: channel has ids")
		_, p := sStr(b, 4, "channel topic")
		_, p = sStr(b, p, "channel message encoding")
		p = sMapEnd(b, p, "channel metadata")
		vAssert(p == len(b), "spec: channel content is exactly its fields")
	case 0x05: // message: channel id, sequence, log time, publish time, data
		vAssert(len(b) >= 22, "spec: message has its fixed fields")
	case 0x07: // message index: channel id, records (4-byte byte length, 16-byte entries)
		vAssert(len(b) >= 6, "spec: message index has its fixed fields")
		n := sLen32(b, 2, "message index records")
		vAssert(n%16 == 0 && 6+n == len(b), "spec: message index content is exactly its entries")
	case 0x08: // chunk index
		vAssert(len(b) >= 36, "spec: chunk index has its fixed fields")
		n := sLen32(b, 32, "chunk index message index offsets")
		vAssert(n%10 == 0, "spec: message index offsets are 10-byte entries")
		p := 36 + n
		vAssert(p+8 <= len(b), "spec: chunk index has message_index_length")
		_, p = sStr(b, p+8, "chunk index compression")
		vAssert(p+16 == len(b), "spec: chunk index content is exactly its fields")
	case 0x09: // attachment
		vAssert(len(b) >= 16, "spec: attachment has its times")
		_, p := sStr(b, 16, "attachment name")
		_, p = sStr(b, p, "attachment media type")
		vAssert(p+8 <= len(b), "spec: attachment has a data size")
		dn := sU64(b, p)
		vAssert(dn <= uint64(len(b)), "spec: attachment data within the record")
		vAssert(p+8+int(dn)+4 == len(b), "spec: attachment content is exactly its fields")
	case 0x0A: // attachment index
		vAssert(len(b) >= 40, "spec: attachment index has its fixed fields")
		_, p := sStr(b, 40, "attachment index name")
		_, p = sStr(b, p, "attachment index media type")
		vAssert(p == len(b), "spec: attachment index content is exactly its fields")
	case 0x0B: // statistics
		vAssert(len(b) >= 46, "spec: statistics has its fixed fields")
		n := sLen32(b, 42, "statistics channel message counts")
		vAssert(n%10 == 0 && 46+n == len(b), "spec: statistics content is exactly its fields")
	case 0x0C: // metadata
		_, p := sStr(b, 0, "metadata name")
		p = sMapEnd(b, p, "metadata map")
		vAssert(p == len(b), "spec: metadata content is exactly its fields")
	case 0x0D: // metadata index
		vAssert(len(b) >= 16, "spec: metadata index has its fixed fields")
		_, p := sStr(b, 16, "metadata index name")
		vAssert(p == len(b), "spec: metadata index content is exactly its fields")
	case 0x0E:
		vAssert(len(b) == 17, "spec: summary offset is 17 bytes")
	case 0x0F:
		vAssert(len(b) == 4, "spec: data end is 4 bytes")
	case 0x02:
		vAssert(len(b) == 20, "spec: footer is 20 bytes")
	}
}

func sDecodeChunk(f *sFile, r sRec) *sChunk {
	b := r.body
	vAssert(len(b) >= 32, "spec: chunk has its fixed fields")
	c := &sChunk{rec: r, startT: sU64(b, 0), endT: sU64(b, 8), usize: sU64(b, 16), crc: sU32(b, 24)}
	comp, p := sStr(b, 28, "chunk compression")
	c.comp = string(comp)
	vAssert(p+8 <= len(b), "spec: chunk has a records length")
	rn := sU64(b, p)
	vAssert(rn <= uint64(len(b)), "spec: chunk records within the record")
	vAssert(p+8+int(rn) == len(b), "spec: chunk content is exactly its fields")
	c.recordsOff, c.recordsN = r.start+9+p+8, int(rn)
	stored := b[p+8:]
	switch c.comp {
	case "":
		c.data = stored
	case "xor", "xor_long_name_22_bytes":
		c.data = make([]byte, len(stored))
		for i := range stored {
			c.data[i] = stored[i] ^ 0x5a
		}
	default:
		vAssert(false, "spec: harness knows the chunk compression")
	}
	vAssert(c.usize == uint64(len(c.data)), "spec: chunk uncompressed_size is the true uncompressed size")
	for o := 0; o < len(c.data); {
		ir := sWalk(c.data, o, "inside a chunk")
		vAssert(ir.op == 0x03 || ir.op == 0x04 || ir.op == 0x05, "spec: only schema, channel and message records inside a chunk")
		sCheckBody(&ir)
		c.inner = append(c.inner, ir)
		o = ir.end()
	}
	// true earliest/latest message time, zero when it holds no message
	first := true
	var lo, hi uint64
	for i := range c.inner {
		if c.inner[i].op != 0x05 {
			continue
		}
		t := sU64(c.inner[i].body, 6)
		if first {
			lo, hi, first = t, t, false
		} else {
			lo = vIte(t < lo, t, lo)
			hi = vIte(t > hi, t, hi)
		}
	}
	vAssert(c.startT == lo, "spec: chunk message_start_time is the earliest message log time (0 without messages)")
	vAssert(c.endT == hi, "spec: chunk message_end_time is the latest message log time (0 without messages)")
	return c
}

// vSpecDecode walks the whole file and checks the grammar. Pointer exactness is checked by vSpecPointers.
func vSpecDecode(file []byte, skipMagic bool) *sFile {
	f := &sFile{b: file, skipMag: skipMagic}
	o := 0
	if !skipMagic {
		vAssert(len(file) >= 8 && vBytesEq(file[:8], sMagic), "spec: leading magic")
		o = 8
	}
	vAssert(len(file) >= o+8 && vBytesEq(file[len(file)-8:], sMagic), "spec: trailing magic")
	end := len(file) - 8
	// data section
	first := true
	var lastChunk *sChunk
	for {
		vAssert(o < end, "spec: data section ends with a DataEnd record")
		r := sWalk(file, o, "in the data section")
		vAssert(r.end() <= end, "spec: record ends before the trailing magic")
		if first {
			vAssert(r.op == 0x01, "spec: the first record is the header")
			first = false
		} else {
			vAssert(r.op != 0x01, "spec: only one header")
		}
		switch r.op {
		case 0x01, 0x03, 0x04, 0x05, 0x09, 0x0C, 0x0F:
			sCheckBody(&r)
			lastChunk = nil
		case 0x06:
			c := sDecodeChunk(f, r)
			f.chunks = append(f.chunks, c)
			lastChunk = c
		case 0x07:
			vAssert(lastChunk != nil, "spec: message index records only directly after their chunk")
			sCheckBody(&r)
			lastChunk.msgIdx = append(lastChunk.msgIdx, r)
		default:
			vAssert(false, "spec: record type not allowed in the data section")
		}
		f.data = append(f.data, r)
		o = r.end()
		if r.op == 0x0F {
			f.dataEnd = r
			break
		}
	}
	f.sumStart = o
	// summary section, summary offset section, footer
	phase := 0 // 0 summary, 1 offsets
	seen := map[byte]bool{}
	var prev byte
	for {
		vAssert(o < end, "spec: the file ends with a footer record")
		r := sWalk(file, o, "after the data section")
		vAssert(r.end() <= end, "spec: record ends before the trailing magic")
		sCheckBody(&r)
		if r.op == 0x02 {
			f.footer = r
			vAssert(r.end() == end, "spec: the footer is the last record, followed by the magic")
			break
		}
		if r.op == 0x0E {
			phase = 1
			f.offsets = append(f.offsets, r)
		} else {
			vAssert(phase == 0, "spec: summary records come before the summary offset section")
			vAssert(r.op == 0x03 || r.op == 0x04 || r.op == 0x08 || r.op == 0x0A || r.op == 0x0B || r.op == 0x0D, "spec: record type allowed in the summary section")
			if r.op != prev {
				vAssert(!seen[r.op], "spec: summary records are grouped by opcode")
				seen[r.op] = true
				prev = r.op
			}
			f.summary = append(f.summary, r)
		}
		o = r.end()
	}
	// definitions precede uses (file order, chunk contents flattened)
	chSeen := map[uint16]bool{}
	scSeen := map[uint16]bool{}
	visit := func(r *sRec) {
		switch r.op {
		case 0x03:
			scSeen[sU16(r.body, 0)] = true
		case 0x04:
			sid := sU16(r.body, 2)
			vAssert(sid == 0 || scSeen[sid], "spec: every channel is preceded by its schema")
			chSeen[sU16(r.body, 0)] = true
		case 0x05:
			vAssert(chSeen[sU16(r.body, 0)], "spec: every message is preceded by its channel")
		}
	}
	ci := 0
	for i := range f.data {
		if f.data[i].op == 0x06 {
			c := f.chunks[ci]
			ci++
			for k := range c.inner {
				visit(&c.inner[k])
			}
		} else {
			visit(&f.data[i])
		}
	}
	return f
}

func (f *sFile) chunkAt(off uint64) *sChunk {
	for _, c := range f.chunks {
		if uint64(c.rec.start) == off {
			return c
		}
	}
	return nil
}

func (f *sFile) dataRecAt(off uint64, op byte) *sRec {
	for i := range f.data {
		if uint64(f.data[i].start) == off && f.data[i].op == op {
			return &f.data[i]
		}
	}
	return nil
}

// vSpecPointers: every location, length, size and time field designates exactly what it describes.
// want* say which optional parts the configuration is expected to emit (index records for every chunk etc.).
type sWant struct {
	chunkIndex, msgIndex, attIndex, mdIndex, sumOffsets bool
}

func vSpecPointers(f *sFile, w sWant) {
	b := f.b
	nChunkIdx, nAttIdx, nMdIdx := 0, 0, 0
	for i := range f.summary {
		r := &f.summary[i]
		s := r.body
		switch r.op {
		case 0x08:
			nChunkIdx++
			c := f.chunkAt(sU64(s, 16))
			vAssert(c != nil, "spec: chunk index chunk_start_offset is the start of a chunk record")
			if c == nil {
				continue
			}
			vAssert(sU64(s, 24) == uint64(9+c.rec.n), "spec: chunk index chunk_length is the length of the chunk record")
			vAssert(sU64(s, 0) == c.startT, "spec: chunk index message_start_time equals the chunk's")
			vAssert(sU64(s, 8) == c.endT, "spec: chunk index message_end_time equals the chunk's")
			n := int(sU32(s, 32))
			p := 36 + n
			// message index offsets: channel -> offset of the message index record after the chunk
			idxBytes := 0
			for k := range c.msgIdx {
				idxBytes += 9 + c.msgIdx[k].n
			}
			vAssert(sU64(s, p) == uint64(idxBytes), "spec: chunk index message_index_length is the byte length of the message index records after the chunk")
			used := 0
			for e := 36; e < 36+n; e += 10 {
				cid, off := sU16(s, e), sU64(s, e+2)
				found := false
				for k := range c.msgIdx {
					if uint64(c.msgIdx[k].start) == off {
						found = true
						used++
						vAssert(sU16(c.msgIdx[k].body, 0) == cid, "spec: message index offset leads to the message index of that channel")
					}
				}
				vAssert(found, "spec: message index offset is the start of a message index record of this chunk")
			}
			vAssert(used == len(c.msgIdx), "spec: every message index record of the chunk has an offset entry")
			comp, p2 := sStr(s, p+8, "chunk index compression")
			vAssert(string(comp) == c.comp, "spec: chunk index compression equals the chunk's")
			vAssert(sU64(s, p2) == uint64(c.recordsN), "spec: chunk index compressed_size is the stored records length")
			vAssert(sU64(s, p2+8) == c.usize, "spec: chunk index uncompressed_size equals the chunk's")
		case 0x0A:
			nAttIdx++
			a := f.dataRecAt(sU64(s, 0), 0x09)
			vAssert(a != nil, "spec: attachment index offset is the start of an attachment record")
			if a == nil {
				continue
			}
			vAssert(sU64(s, 8) == uint64(9+a.n), "spec: attachment index length is the length of the attachment record")
			vAssert(vAnd(sU64(s, 16) == sU64(a.body, 0), sU64(s, 24) == sU64(a.body, 8)), "spec: attachment index times equal the attachment's")
			an, p := sStr(a.body, 16, "attachment name")
			am, p := sStr(a.body, p, "attachment media type")
			vAssert(sU64(s, 32) == sU64(a.body, p), "spec: attachment index data_size equals the attachment's")
			in, q := sStr(s, 40, "attachment index name")
			im, _ := sStr(s, q, "attachment index media type")
			vAssert(len(in) == len(an) && vBytesEq(in, an), "spec: attachment index name equals the attachment's")
			vAssert(len(im) == len(am) && vBytesEq(im, am), "spec: attachment index media type equals the attachment's")
		case 0x0D:
			nMdIdx++
			m := f.dataRecAt(sU64(s, 0), 0x0C)
			vAssert(m != nil, "spec: metadata index offset is the start of a metadata record")
			if m == nil {
				continue
			}
			vAssert(sU64(s, 8) == uint64(9+m.n), "spec: metadata index length is the length of the metadata record")
			mn, _ := sStr(m.body, 0, "metadata name")
			in, _ := sStr(s, 16, "metadata index name")
			vAssert(len(in) == len(mn) && vBytesEq(in, mn), "spec: metadata index name equals the metadata record's")
		}
	}
	// message index content: per channel the (log_time, offset) pairs of that channel's messages, each offset being
	// the start of that message record inside the uncompressed chunk data
	for _, c := range f.chunks {
		perCh := map[uint16][]int{}
		var order []uint16
		for k := range c.inner {
			if c.inner[k].op == 0x05 {
				id := sU16(c.inner[k].body, 0)
				if _, ok := perCh[id]; !ok {
					order = append(order, id)
				}
				perCh[id] = append(perCh[id], k)
			}
		}
		if w.msgIndex {
			vAssert(len(c.msgIdx) == len(order), "spec: one message index record per channel with messages in the chunk")
		}
		seen := map[uint16]bool{}
		for k := range c.msgIdx {
			mi := c.msgIdx[k].body
			id := sU16(mi, 0)
			vAssert(!seen[id], "spec: at most one message index record per channel and chunk")
			seen[id] = true
			n := int(sU32(mi, 2)) / 16
			vAssert(n == len(perCh[id]), "spec: a message index lists exactly the messages of its channel in the chunk")
			if n != len(perCh[id]) {
				continue
			}
			// entries sorted by log time is not required by the spec; each entry must designate a distinct message of the
			// channel with its log time. The writer emits them in write order; accept any order by matching offsets.
			for e := 0; e < n; e++ {
				t, off := sU64(mi, 6+16*e), sU64(mi, 6+16*e+8)
				ok := false
				for _, ik := range perCh[id] {
					if uint64(c.inner[ik].start) == off {
						ok = true
						vAssert(t == sU64(c.inner[ik].body, 6), "spec: message index entry carries the log time of the message at its offset")
					}
				}
				vAssert(ok, "spec: message index entry offset is the start of a message of its channel in the uncompressed chunk")
				for e2 := 0; e2 < e; e2++ {
					vAssert(sU64(mi, 6+16*e2+8) != off, "spec: message index entries designate distinct messages")
				}
			}
		}
	}
	if w.chunkIndex {
		vAssert(nChunkIdx == len(f.chunks), "spec: one chunk index per chunk")
	}
	nAtt, nMd := 0, 0
	for i := range f.data {
		if f.data[i].op == 0x09 {
			nAtt++
		}
		if f.data[i].op == 0x0C {
			nMd++
		}
	}
	if w.attIndex {
		vAssert(nAttIdx == nAtt, "spec: one attachment index per attachment")
	}
	if w.mdIndex {
		vAssert(nMdIdx == nMd, "spec: one metadata index per metadata record")
	}
	// summary offsets delimit exactly their groups
	type grp struct {
		op         byte
		start, end int
	}
	var groups []grp
	for i := range f.summary {
		r := &f.summary[i]
		if len(groups) == 0 || groups[len(groups)-1].op != r.op {
			groups = append(groups, grp{r.op, r.start, r.end()})
		} else {
			groups[len(groups)-1].end = r.end()
		}
	}
	for i := range f.offsets {
		s := f.offsets[i].body
		found := false
		for _, g := range groups {
			if g.op == s[0] {
				found = true
				vAssert(sU64(s, 1) == uint64(g.start), "spec: summary offset group_start is the offset of the first record of the group")
				vAssert(sU64(s, 9) == uint64(g.end-g.start), "spec: summary offset group_length is the byte length of the group")
			}
		}
		vAssert(found, "spec: summary offset designates a group present in the summary")
		for k := 0; k < i; k++ {
			vAssert(f.offsets[k].body[0] != s[0], "spec: one summary offset per group")
		}
	}
	if w.sumOffsets {
		vAssert(len(f.offsets) == len(groups), "spec: one summary offset per summary group")
	} else {
		vAssert(len(f.offsets) == 0, "spec: no summary offsets when disabled")
	}
	// footer
	ft := f.footer.body
	if len(f.summary) == 0 {
		vAssert(sU64(ft, 0) == 0, "spec: footer summary_start is 0 when there are no summary records")
	} else {
		vAssert(sU64(ft, 0) == uint64(f.summary[0].start), "spec: footer summary_start is the offset of the first summary record")
	}
	if len(f.offsets) == 0 {
		vAssert(sU64(ft, 8) == 0, "spec: footer summary_offset_start is 0 when there are no summary offset records")
	} else {
		vAssert(sU64(ft, 8) == uint64(f.offsets[0].start), "spec: footer summary_offset_start is the offset of the first summary offset record")
	}
	_ = b
}

// vSpecCRCs (C06): every emitted checksum covers exactly the bytes the specification says; with checksums
// disabled the data, summary and chunk CRC fields are zero while attachment CRCs are still correct.
func vSpecCRCs(f *sFile, includeCRC bool) {
	b := f.b
	// data section CRC: all bytes from the beginning of the file up to the DataEnd record
	dcrc := sU32(f.dataEnd.body, 0)
	// summary CRC: from the start of the summary section (the byte after DataEnd) through the footer's summary_offset_start
	scrc := sU32(f.footer.body, 16)
	if includeCRC {
		vAssert(dcrc == crc32.ChecksumIEEE(b[:f.dataEnd.start]), "spec: data_section_crc covers the file up to the DataEnd record")
		vAssert(scrc == crc32.ChecksumIEEE(b[f.sumStart:f.footer.start+9+16]), "spec: summary_crc covers the summary section through the footer's summary_offset_start")
	} else {
		vAssert(dcrc == 0, "spec: data_section_crc is 0 when checksums are disabled")
		vAssert(scrc == 0, "spec: summary_crc is 0 when checksums are disabled")
	}
	for _, c := range f.chunks {
		if includeCRC {
			vAssert(c.crc == crc32.ChecksumIEEE(c.data), "spec: chunk uncompressed_crc covers the uncompressed records")
		} else {
			vAssert(c.crc == 0, "spec: chunk uncompressed_crc is 0 when checksums are disabled")
		}
	}
	for i := range f.data {
		if f.data[i].op != 0x09 {
			continue
		}
		a := f.data[i].body
		vAssert(sU32(a, len(a)-4) == crc32.ChecksumIEEE(a[:len(a)-4]), "spec: attachment crc covers the preceding fields of the record")
	}
}
