//go:build verif

package mcap

import (
	"io"
)

// C04: topic + time-window selection returns exactly the matching messages, with and without the index, in
// every order, and every spelling of the window means the same window.
// params: n, per (file shape), topics (0 none,1 {a},2 {b},3 {a,b},4 {zz},5 {a,zz}), idx (0/1), ord (0 file,1 log,2 reverse),
//         spell (0 AfterNanos,BeforeNanos; 1 BeforeNanos,AfterNanos; 2 After,Before; 3 Before,After; 4 no window;
//                5 AfterNanos only; 6 BeforeNanos only; 7 After only; 8 Before only)
func VC04Select() {
	n, per := vParam("n"), vParam("per")
	topicSel, idx, ord, spell := vParam("topics"), vParam("idx"), vParam("ord"), vParam("spell")
	// C04 itself owns the finding about log time 2^64-1, so no exclusion here
	// skip: Skip* mask of the writer (1 = no message indexes: topic selection cannot prune chunks then)
	opts := vOptions(3, vParam("skip"), int64(32*per-1))
	sink := &vSink{failAt: -1}
	w, err := NewWriter(sink, opts)
	vAssert(err == nil, "NewWriter")
	vAssert(w.WriteHeader(&Header{}) == nil, "header")
	vAssert(w.WriteSchema(&Schema{ID: 1, Name: "s"}) == nil, "schema")
	vAssert(w.WriteChannel(&Channel{ID: 1, SchemaID: 1, Topic: "a"}) == nil, "channel a")
	vAssert(w.WriteChannel(&Channel{ID: 2, SchemaID: 0, Topic: "b"}) == nil, "channel b")
	vAssert(w.WriteChannel(&Channel{ID: 3, SchemaID: 0, Topic: "a"}) == nil, "channel 3 shares topic a, has no message")
	var msgs []*Message
	for i := 0; i < n; i++ {
		m := &Message{ChannelID: uint16(1 + i%2), Sequence: uint32(i), LogTime: vSymU64(vN("t", i)), Data: []byte{byte(i)}}
		vAssert(w.WriteMessage(m) == nil, "message")
		msgs = append(msgs, m)
	}
	vAssert(w.Close() == nil, "close")
	file := sink.b

	s, e := vSymU64("start"), vSymU64("end")
	vAssume(s <= e)
	hasStart, hasEnd := true, true
	var ropts []ReadOpt
	// UsingIndex must precede InOrder (the options validate against each other)
	ropts = append(ropts, UsingIndex(idx == 1))
	switch ord {
	case 1:
		ropts = append(ropts, InOrder(LogTimeOrder))
	case 2:
		ropts = append(ropts, InOrder(ReverseLogTimeOrder))
	}
	switch spell {
	case 0:
		ropts = append(ropts, AfterNanos(s), BeforeNanos(e))
	case 1:
		ropts = append(ropts, BeforeNanos(e), AfterNanos(s))
	case 2:
		vAssume(e <= 1<<63-1)
		ropts = append(ropts, After(int64(s)), Before(int64(e)))
	case 3:
		vAssume(e <= 1<<63-1)
		ropts = append(ropts, Before(int64(e)), After(int64(s)))
	case 4:
		hasStart, hasEnd = false, false
	case 5:
		hasEnd = false
		ropts = append(ropts, AfterNanos(s))
	case 6:
		hasStart = false
		ropts = append(ropts, BeforeNanos(e))
	case 7:
		hasEnd = false
		vAssume(s <= 1<<63-1)
		ropts = append(ropts, After(int64(s)))
	case 8:
		hasStart = false
		vAssume(e <= 1<<63-1)
		ropts = append(ropts, Before(int64(e)))
	}
	var topics []string
	wantA, wantB := true, true
	switch topicSel {
	case 1:
		topics, wantB = []string{"a"}, false
	case 2:
		topics, wantA = []string{"b"}, false
	case 3:
		topics = []string{"a", "b"}
	case 4:
		topics, wantA, wantB = []string{"zz"}, false, false
	case 5:
		topics, wantB = []string{"a", "zz"}, false
	}
	if topics != nil {
		ropts = append(ropts, WithTopics(topics))
	}
	var src io.Reader = vNewSource(file)
	r, err := NewReader(src)
	vAssert(err == nil, "NewReader")
	it, err := r.Messages(ropts...)
	vAssert(err == nil, "Messages accepts a window with start <= end")
	if err != nil {
		return
	}
	seen := make([]bool, n)
	cnt := 0
	lastTag := -1
	var last uint64
	for {
		_, c, m, err := it.NextInto(nil)
		if err != nil {
			vAssert(err == io.EOF, "ends with EOF")
			break
		}
		tag := int(m.Sequence)
		vAssert(tag >= 0 && tag < n && !seen[tag], "each message at most once")
		seen[tag] = true
		vAssert(m.LogTime == msgs[tag].LogTime && c.ID == msgs[tag].ChannelID, "message content")
		if cnt > 0 {
			switch ord {
			case 0:
				vAssert(tag > lastTag, "file order")
			case 1:
				vAssert(m.LogTime >= last, "log time order")
			case 2:
				vAssert(m.LogTime <= last, "reverse log time order")
			}
		}
		last, lastTag = m.LogTime, tag
		cnt++
	}
	for i := 0; i < n; i++ {
		topicOK := wantA
		if i%2 == 1 {
			topicOK = wantB
		}
		t := msgs[i].LogTime
		in := true
		if hasStart {
			in = vAnd(in, t >= s)
		}
		if hasEnd {
			in = vAnd(in, t < e)
		}
		want := vAnd(topicOK, in)
		// known finding C04-K1: with no end bound given, a message at exactly 2^64-1 is dropped
		carve := vAnd(!hasEnd, t == ^uint64(0))
		if seen[i] {
			vAssert(want, "returned message matches topic set and window")
		} else {
			vAssertExcept(!want, "matching message missing from the read", "C04-K1", carve)
		}
	}
	// Info asked AFTER a filtered read on the same Reader still describes the whole file (C08's Info clause under
	// a call sequence that a cached, filter-dependent summary would get wrong)
	if idx == 1 {
		if info, ierr := r.Info(); ierr == nil {
			vAssert(len(info.Channels) == 3, "Info after a filtered read lists every channel")
			vAssert(len(info.ChunkIndexes) == len(w.ChunkIndexes), "Info after a filtered read lists every chunk")
		}
	}
	vReach("end")
}
