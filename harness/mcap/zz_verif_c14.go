//go:build verif

package mcap

// C14: a failing sink is reported by the call it hits; no call panics; accepted bytes are a prefix of the
// fault-free output. The sink fails at write index k (symbolic) accepting shortN (symbolic, 0..len(p)) bytes
// of that write and returning an error; sticky (every later write fails too) is symbolic.
// params: tpl, ln, pn, cfg, skip, cs, klo, khi (the partition cell of k: klo <= k < khi), smax (bound of shortN)
func VC14Sink() {
	tpl, ln, pn := vParam("tpl"), vParam("ln"), vParam("pn")
	cfg, skip, cs := vParam("cfg"), vParam("skip"), vParam("cs")
	klo, khi := vParam("klo"), vParam("khi")
	wl := vMakeWorkload(tpl, ln, pn, 0)
	_, ref := vWriteAll(wl, vOptions(cfg, skip, int64(cs)))

	k := vSymInt("k")
	vAssume(k >= klo && k < khi)
	shortN := vSymInt("shortN")
	vAssume(shortN >= 0 && shortN <= vParam("smax"))
	sticky := vSymBool("sticky")
	sink := &vSink{failAt: k, shortN: shortN, sticky: sticky}
	hit := false
	// step runs one API call and checks the property for it
	step := func(call func() error, name string) {
		before := sink.failed
		nBefore := sink.n
		err := call()
		if sink.failed && (!before || (sticky && sink.n > nBefore)) {
			// a destination write failed during this call
			vAssert(err != nil, name+": a failed destination write is reported by the call it hits")
			if !hit {
				hit = true
				vAssert(len(sink.b) <= len(ref), name+": accepted bytes no longer than the fault-free output")
				if len(sink.b) <= len(ref) {
					vAssert(vBytesEq(sink.b, ref[:len(sink.b)]), name+": accepted bytes are a prefix of the fault-free output")
				}
				vReach("fault-hit")
			}
		}
	}
	var w *Writer
	step(func() error {
		var err error
		w, err = NewWriter(sink, vOptions(cfg, skip, int64(cs)))
		return err
	}, "NewWriter")
	if w != nil {
		step(func() error { return w.WriteHeader(&wl.header) }, "WriteHeader")
		for i := range wl.recs {
			r := &wl.recs[i]
			step(func() error { return vWriteRec(w, r) }, "Write*")
		}
		step(func() error { return w.Close() }, "Close")
	}
	if sticky && hit {
		vAssert(len(sink.b) <= len(ref), "sticky: accepted bytes no longer than the fault-free output")
		if len(sink.b) <= len(ref) {
			vAssert(vBytesEq(sink.b, ref[:len(sink.b)]), "sticky: accepted bytes stay a prefix of the fault-free output")
		}
	}
	if !hit {
		// k beyond the last write: the run is fault-free and must equal the reference
		vAssert(vBytesEq(sink.b, ref), "fault-free run equals the reference")
	}
	vReach("end")
}

// C14, attachment source: the data source fails after j bytes, or delivers a different number of bytes than
// DataSize declares -> WriteAttachment returns an error.
// params: dn (true data length), mode (0: source error at symbolic j<=dn; 1: declared size = dn+d, d symbolic != 0)
func VC14AttachmentSource() {
	dn, mode, cfg := vParam("dn"), vParam("mode"), vParam("cfg")
	sink := &vSink{failAt: -1}
	w, err := NewWriter(sink, vOptions(cfg, 0, 1000))
	vAssert(err == nil, "NewWriter")
	vAssert(w.WriteHeader(&Header{}) == nil, "header")
	data := vSymBytes("data", dn, dn)
	src := vNewSource(data)
	declared := uint64(dn)
	switch mode {
	case 0:
		j := vSymInt("j")
		vAssume(j >= 0 && j <= dn)
		src.errAt = int64(j)
	case 1:
		declared = vSymU64("declared")
		vAssume(declared != uint64(dn))
	}
	err = w.WriteAttachment(&Attachment{LogTime: vSymU64("log"), CreateTime: vSymU64("create"), Name: vStr("name", 1), MediaType: vStr("mt", 1), DataSize: declared, Data: src})
	vAssert(err != nil, "WriteAttachment reports a failing or mis-sized data source")
	vReach("end")
}
