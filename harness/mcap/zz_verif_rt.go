//go:build verif

package mcap

// Harness runtime. Under the symbolic engine (symgo) every function named v[A-Z]... in this file is
// intercepted by name and its body is ignored; natively (go test -tags verif, overlay) the bodies below
// read the solver's assignment from the replay file named by $VERIF_REPLAY, so a harness is at once the
// symbolic entry point and the replay test.

import (
	"os"
	"runtime"
	"strconv"
	"strings"
)

type vStop struct {
	kind   string
	detail string
}

var vHarnesses = map[string]func(){}

var vAllocCeiling uint64 = 1<<31 - 1

var vReplay struct {
	loaded  bool
	harness string
	params  map[string]int64
	ins     map[string]uint64
	bytes   map[string][]byte
	known   map[string]bool
	observe map[string][]uint64
	obsPos  map[string]int
	out     []string
}

func vLoadReplay() {
	vReplay.loaded = true
	vReplay.params = map[string]int64{}
	vReplay.ins = map[string]uint64{}
	vReplay.bytes = map[string][]byte{}
	vReplay.known = map[string]bool{}
	vReplay.observe = map[string][]uint64{}
	vReplay.obsPos = map[string]int{}
	b, err := os.ReadFile(os.Getenv("VERIF_REPLAY"))
	if err != nil {
		return
	}
	for _, l := range strings.Split(string(b), "\n") {
		f := strings.Fields(l)
		if len(f) < 2 {
			continue
		}
		switch f[0] {
		case "harness":
			vReplay.harness = f[1]
		case "param":
			v, _ := strconv.ParseInt(f[2], 10, 64)
			vReplay.params[f[1]] = v
		case "in":
			v, _ := strconv.ParseUint(f[2], 10, 64)
			vReplay.ins[f[1]] = v
		case "bytes":
			h := ""
			if len(f) > 2 {
				h = f[2]
			}
			bs := make([]byte, len(h)/2)
			for i := range bs {
				x, _ := strconv.ParseUint(h[2*i:2*i+2], 16, 8)
				bs[i] = byte(x)
			}
			vReplay.bytes[f[1]] = bs
		case "known":
			vReplay.known[f[1]] = true
		case "observe":
			kv := strings.SplitN(f[1], "=", 2)
			v, _ := strconv.ParseUint(kv[1], 10, 64)
			vReplay.observe[kv[0]] = append(vReplay.observe[kv[0]], v)
		}
	}
}

func vSanitize(n string) string {
	var sb strings.Builder
	for _, c := range n {
		if (c >= 'a' && c <= 'z') || (c >= 'A' && c <= 'Z') || (c >= '0' && c <= '9') || c == '_' {
			sb.WriteRune(c)
		} else {
			sb.WriteByte('_')
		}
	}
	return "in_" + sb.String()
}

func vIn(name string) uint64 {
	if !vReplay.loaded {
		vLoadReplay()
	}
	return vReplay.ins[vSanitize(name)]
}

func vSymU64(name string) uint64 { return vIn(name) }
func vSymU32(name string) uint32 { return uint32(vIn(name)) }
func vSymU16(name string) uint16 { return uint16(vIn(name)) }
func vSymU8(name string) uint8   { return uint8(vIn(name)) }
func vSymInt(name string) int    { return int(vIn(name)) }
func vSymBool(name string) bool  { return vIn(name) != 0 }

// vSymBytes returns a fresh byte slice of length n (0 <= n <= max) with arbitrary contents.
func vSymBytes(name string, n int, max int) []byte {
	if !vReplay.loaded {
		vLoadReplay()
	}
	if n < 0 || n > max {
		panic(vStop{"assume", "vSymBytes length out of range"})
	}
	b := make([]byte, n)
	copy(b, vReplay.bytes[vSanitize(name)])
	return b
}

// vParam returns a concrete job parameter (template / partition selector).
func vParam(name string) int {
	if !vReplay.loaded {
		vLoadReplay()
	}
	return int(vReplay.params[name])
}

func vN(name string, i int) string { return name + strconv.Itoa(i) }

func vAssume(c bool) {
	if !c {
		panic(vStop{"assume", ""})
	}
}

func vAssert(c bool, label string) {
	if !c {
		panic(vStop{"assert", label})
	}
}

// vAssertExcept: like vAssert, but when knownID is a listed known finding and carve holds, the failure is
// that known finding rather than a new violation.
func vAssertExcept(c bool, label string, knownID string, carve bool) {
	if !c {
		if !vReplay.loaded {
			vLoadReplay()
		}
		if vReplay.known[knownID] && carve {
			panic(vStop{"known", knownID})
		}
		panic(vStop{"assert", label})
	}
}

func vKnown(id string) bool {
	if !vReplay.loaded {
		vLoadReplay()
	}
	return vReplay.known[id]
}

func vReach(label string) { vReplay.out = append(vReplay.out, "reach "+label) }

// vObserve records a value; natively it is compared with the value the engine computed for the same
// point under the same inputs (engine-vs-native differential).
func vObserve(label string, v uint64) {
	if !vReplay.loaded {
		vLoadReplay()
	}
	exp := vReplay.observe[label]
	i := vReplay.obsPos[label]
	vReplay.obsPos[label] = i + 1
	if i < len(exp) && exp[i] != v {
		vReplay.out = append(vReplay.out, "observe-mismatch "+label+"#"+strconv.Itoa(i)+" engine="+strconv.FormatUint(exp[i], 10)+" native="+strconv.FormatUint(v, 10))
	}
}

func vIdealCRC()               {}
func vFreeMapOrder(on bool)    {}
// vAllocLimit(n): from here on no single library allocation may exceed n bytes (engine: checked per allocation).
// Natively single allocations cannot be observed; what can be measured exactly is the number of bytes allocated in
// "large" objects (above the 32 KiB size class = above io.Copy's fixed buffer): a window opened by vAllocLimit(n)
// with n >= 32 KiB is violated natively when more than n bytes of large objects were allocated inside it.
func vAllocLimit(n int) {
	vAllocWindowCheck()
	vAllocCeiling = uint64(n)
	if n >= 32768 && n < 1<<31-1 {
		vWin.open, vWin.lim, vWin.large0 = true, uint64(n), vLargeBytes()
	}
}

var vWin struct {
	open       bool
	lim        uint64
	large0     uint64
}

func vLargeBytes() uint64 {
	var ms runtime.MemStats
	runtime.ReadMemStats(&ms)
	var small uint64
	for _, b := range ms.BySize {
		small += uint64(b.Size) * b.Mallocs
	}
	if ms.TotalAlloc < small {
		return 0
	}
	return ms.TotalAlloc - small
}

func vAllocWindowCheck() {
	if vWin.open {
		vWin.open = false
		if d := vLargeBytes() - vWin.large0; d > vWin.lim && d < 1<<62 {
			panic(vStop{"alloc", strconv.FormatUint(d, 10) + " bytes in large objects allocated inside a window limited to " + strconv.FormatUint(vWin.lim, 10)})
		}
	}
}
func vCut(why string)          { panic(vStop{"cut", why}) }
func vEngine() bool            { return false }
func vFork(c bool) bool        { return c }
func vLoopBound(n int)         {}
func vConcretize(x, max int) int { return x }
func vBytesEq(a, b []byte) bool { return string(a) == string(b) }
func vStrEq(a, b string) bool   { return a == b }
func vIte(c bool, a, b uint64) uint64 {
	if c {
		return a
	}
	return b
}
func vAnd(a, b bool) bool     { return a && b }
func vOr(a, b bool) bool      { return a || b }
func vImplies(a, b bool) bool { return !a || b }
