//go:build verif

package mcap

import (
	"io"
)

// vEvent is one thing a sequential read reports: a token with its bytes, or an attachment seen by the callback.
type vEvent struct {
	tok  TokenType
	rec  []byte
	att  bool
	ar   AttachmentReader
	data []byte
	derr error
	pcrc uint32 // the stored attachment CRC as ParsedCRC returns it (after the data was read)
	perr error
	ccrc uint32 // the CRC the reader computed over what it delivered (ComputedCRC, taken before ParsedCRC)
	cerr error
	pos  int64 // source position after the event
}

// vLexLastTok: the token type returned together with the terminal error of the last vLexEvents run.
var vLexLastTok TokenType

// vLexEvents lexes src to the end and returns the events and the terminal error.
// vLexLastLexer/vLexLastSource: the lexer and source of the last vLexEvents run (to go on lexing after its terminal
// token); vLexEventsFrom continues an existing lexer.
var vLexLastLexer *Lexer
var vLexLastSource *vSource
var vLexSink *[]vEvent

func vLexEventsFrom(lex *Lexer, src *vSource) ([]vEvent, error) {
	var evs []vEvent
	vLexSink = &evs
	for {
		tok, rec, err := lex.Next(nil)
		if err != nil {
			vLexLastTok = tok
			return evs, err
		}
		evs = append(evs, vEvent{tok: tok, rec: append([]byte(nil), rec...), pos: src.pos})
	}
}

func vLexEvents(src *vSource, opts *LexerOptions) ([]vEvent, error) {
	var evs []vEvent
	vLexSink = &evs
	o := *opts
	o.ComputeAttachmentCRCs = true
	o.AttachmentCallback = func(ar *AttachmentReader) error {
		evs := vLexSink
		d, err := io.ReadAll(ar.Data())
		ev := vEvent{att: true, ar: *ar, data: d, derr: err}
		if err == nil {
			if o.ComputeAttachmentCRCs {
				ev.ccrc, ev.cerr = ar.ComputedCRC()
			}
			ev.pcrc, ev.perr = ar.ParsedCRC()
		} else {
			ev.perr = err
		}
		ev.pos = src.pos
		*evs = append(*evs, ev)
		return nil
	}
	var rs io.ReadSeeker = src
	if vSourceSized {
		rs = vSourceLen{src}
	}
	lex, err := NewLexer(rs, &o)
	if err != nil {
		return evs, err
	}
	vLexLastLexer, vLexLastSource = lex, src
	for {
		tok, rec, err := lex.Next(nil)
		if err != nil {
			vLexLastTok = tok
			return evs, err
		}
		evs = append(evs, vEvent{tok: tok, rec: append([]byte(nil), rec...), pos: src.pos})
	}
}

// vEventsPrefix asserts that got is a prefix of ref with equal content (an attachment may carry fewer data bytes
// when partial is allowed) and returns len(got).
func vEventsPrefix(got, ref []vEvent, partialAtt bool, label string) {
	vAssert(len(got) <= len(ref), label+": no record that was not written")
	for i := range got {
		if i >= len(ref) {
			break
		}
		g, r := &got[i], &ref[i]
		vAssert(g.att == r.att && g.tok == r.tok, label+": same record kinds in the same order")
		if g.att {
			vAssert(vAnd(vAnd(g.ar.LogTime == r.ar.LogTime, g.ar.CreateTime == r.ar.CreateTime), vAnd(vStrEq(g.ar.Name, r.ar.Name), vAnd(vStrEq(g.ar.MediaType, r.ar.MediaType), g.ar.DataSize == r.ar.DataSize))), label+": attachment fields unaltered")
			if partialAtt {
				vAssert(len(g.data) <= len(r.data), label+": attachment data not longer than written")
				if len(g.data) <= len(r.data) {
					vAssert(vBytesEq(g.data, r.data[:len(g.data)]), label+": attachment data is a prefix of what was written")
				}
			} else {
				vAssert(len(g.data) == len(r.data) && vBytesEq(g.data, r.data), label+": attachment data unaltered")
				vAssert(g.perr == nil, label+": stored attachment CRC readable")
				// the CRC computed over the delivered attachment bytes does not depend on how the read went
				vAssert(g.cerr == nil && r.cerr == nil && g.ccrc == r.ccrc, label+": computed attachment CRC unaltered")
			}
			// whenever the stored CRC is returned without an error it is the stored CRC (a short read or a cut inside
			// its four bytes must not surface as a padded value)
			if g.perr == nil && r.perr == nil {
				vAssert(g.pcrc == r.pcrc, label+": stored attachment CRC unaltered")
			}
		} else {
			vAssert(len(g.rec) == len(r.rec) && vBytesEq(g.rec, r.rec), label+": record content unaltered")
		}
	}
}

type vMsgOut struct {
	sid, cid uint16
	hasS     bool
	m        Message
}

// vIterMessages reads messages with the non-indexed iterator until an error.
func vIterMessages(src io.Reader) ([]vMsgOut, error) {
	r, err := NewReader(src)
	if err != nil {
		return nil, err
	}
	it, err := r.Messages(UsingIndex(false))
	if err != nil {
		return nil, err
	}
	var out []vMsgOut
	for {
		s, c, m, err := it.NextInto(nil)
		if err != nil {
			return out, err
		}
		o := vMsgOut{cid: c.ID, m: *m}
		if s != nil {
			o.sid, o.hasS = s.ID, true
		}
		out = append(out, o)
	}
}

func vMsgsPrefix(got, ref []vMsgOut, label string) {
	vAssert(len(got) <= len(ref), label+": no message that was not written")
	for i := range got {
		if i >= len(ref) {
			break
		}
		vAssert(got[i].cid == ref[i].cid && got[i].hasS == ref[i].hasS && got[i].sid == ref[i].sid, label+": message bound to the same channel and schema")
		vAssert(vMessageEq(&got[i].m, &ref[i].m), label+": message unaltered")
	}
}

// vAssumeChunkCRCsNonZero: with the CRC uninterpreted, "the stored chunk CRC is 0" is a feasible value, and 0 means
// "not available" (validation is skipped by specification). The real CRC-32 of a given chunk is 0 with probability
// 2^-32; harnesses that are not about CRC values assume it away (listed in the evidence).
func vAssumeChunkCRCsNonZero(w *Writer, file []byte, includeCRC bool) {
	if !includeCRC {
		return
	}
	for _, ci := range w.ChunkIndexes {
		crc, _, err := getUint32(file, int(ci.ChunkStartOffset)+9+24)
		vAssert(err == nil, "chunk header readable")
		vAssume(crc != 0)
	}
}

// C09: a file cut at any byte reads as a prefix of its records.
// params: tpl, cfg, cs, validate, lo, hi (partition cell of the cut position L: lo <= L < hi),
// rd (0: lexer, 1: non-indexed iterator - separate jobs, so their path counts add instead of multiplying)
func VC09Cut() {
	vIdealCRC() // two CRC values are equal exactly when the bytes fed are equal (no accidental collisions)
	tpl, cfg, cs, validate := vParam("tpl"), vParam("cfg"), vParam("cs"), vParam("validate")
	lo, hi, rd := vParam("lo"), vParam("hi"), vParam("rd")
	wl := vMakeWorkload(tpl, 1, 2, 0)
	opts := vOptions(cfg, 0, int64(cs))
	w, file := vWriteAll(wl, opts)
	if lo >= len(file) {
		vReach("end") // cell beyond the file: nothing to decide
		return
	}
	vAssumeChunkCRCsNonZero(w, file, opts.IncludeCRC)
	lopts := &LexerOptions{ValidateChunkCRCs: validate == 1, Decompressors: vDecompressors(cfg)}
	ref, rerr := vLexEvents(vNewSource(file), lopts)
	vAssert(rerr == io.EOF, "the whole file lexes to EOF")

	L := vSymInt("L")
	vAssume(vAnd(vAnd(L >= lo, L < hi), L < len(file)))
	if rd == 1 {
		refM, e1 := vIterMessages(vReadOnly{vNewSource(file)})
		vAssert(e1 == io.EOF, "the whole file iterates to EOF")
		src2 := vNewSource(file)
		src2.limit = int64(L)
		var rd2 io.Reader = vReadOnly{src2}
		if vParam("sized") == 1 {
			rd2 = vReadOnlyLen{src2}
		}
		gotM, e2 := vIterMessages(rd2)
		vAssert(e2 != nil, "a cut iteration ends with end-of-file or an error")
		vMsgsPrefix(gotM, refM, "iterator")
		// every message of every completely written chunk is returned
		mi := 0
		for i := range ref {
			if ref[i].att || ref[i].tok != TokenMessage {
				continue
			}
			for _, ci := range w.ChunkIndexes {
				cstart, cend := int64(ci.ChunkStartOffset), int64(ci.ChunkStartOffset+ci.ChunkLength)
				if ref[i].pos > cstart && ref[i].pos <= cend {
					vAssert(vImplies(int64(L) >= cend, mi < len(gotM)), "iterator: every message of a completely written chunk is returned")
				}
			}
			mi++
		}
		vReach("end")
		return
	}
	src := vNewSource(file)
	src.limit = int64(L)
	vSourceSized = vParam("sized") == 1 // sized=1: the cut source also has Len()/Size(), like bytes.Reader
	got, gerr := vLexEvents(src, lopts)
	vSourceSized = false
	vAssert(gerr != nil, "a cut read ends with end-of-file or an error")
	vEventsPrefix(got, ref, true, "lexer")
	// every message of every chunk completely written before the cut is among the records returned
	for i := range ref {
		if ref[i].att || ref[i].tok != TokenMessage {
			continue
		}
		for _, ci := range w.ChunkIndexes {
			cstart, cend := int64(ci.ChunkStartOffset), int64(ci.ChunkStartOffset+ci.ChunkLength)
			if ref[i].pos > cstart && ref[i].pos <= cend {
				vAssert(vImplies(int64(L) >= cend, i < len(got)), "every message of a completely written chunk is returned")
			}
		}
	}
	vReach("lexed")

	vReach("end")
}
