//go:build verif

package mcap

import (
	"io"
)

// C01: write a template workload through the real writer, read it back through the real lexer and the
// real non-indexed iterator; every field of every record must come back equal, in order.
//
// params: tpl, ln (string length class), pn (payload length class), idv (id variant), cfg (option bits),
// skip (-1 symbolic Skip* flags, else bitmask), cs (chunk size)
func VC01RoundTrip() {
	tpl, ln, pn, idv := vParam("tpl"), vParam("ln"), vParam("pn"), vParam("idv")
	cfg, skip, cs := vParam("cfg"), vParam("skip"), vParam("cs")
	wl := vMakeWorkload(tpl, ln, pn, idv)
	vExcludeKnownTimes(wl)
	opts := vOptions(cfg, skip, int64(cs))
	_, file := vWriteAll(wl, opts)

	// ---- (a) the lexer ----
	type gotAtt struct {
		ar   AttachmentReader
		data []byte
		pcrc uint32
		ccrc uint32
	}
	var atts []gotAtt
	lex, err := NewLexer(vNewSource(file), &LexerOptions{
		SkipMagic:             opts.SkipMagic,
		ValidateChunkCRCs:     vSymBool("validate"),
		ComputeAttachmentCRCs: true,
		Decompressors:         vDecompressors(cfg),
		AttachmentCallback: func(ar *AttachmentReader) error {
			d, err := io.ReadAll(ar.Data())
			vAssert(err == nil, "attachment data readable")
			p, err := ar.ParsedCRC()
			vAssert(err == nil, "attachment crc parsed")
			c, err := ar.ComputedCRC()
			vAssert(err == nil, "attachment crc computed")
			atts = append(atts, gotAtt{ar: *ar, data: d, pcrc: p, ccrc: c})
			return nil
		},
	})
	vAssert(err == nil, "NewLexer succeeds")
	var schemas []*Schema
	var channels []*Channel
	var messages []*Message
	var metas []*Metadata
	sawHeader, sawDataEnd, sawFooter := false, false, false
	// Expected order: schema/channel/message records keep their mutual order (they travel through the chunk
	// together); attachments and metadata keep their own relative order (they bypass the open chunk).
	var expData, expMeta []int
	nExpAtt := 0
	for i := range wl.recs {
		switch wl.recs[i].kind {
		case vKSchema, vKChannel, vKMessage:
			expData = append(expData, i)
		case vKMetadata:
			expMeta = append(expMeta, i)
		case vKAttachment:
			nExpAtt++
		}
	}
	pos, mpos := 0, 0
	for {
		tok, rec, err := lex.Next(nil)
		if err != nil {
			vAssert(err == io.EOF, "lexer ends with EOF")
			break
		}
		if sawDataEnd {
			if tok == TokenFooter {
				sawFooter = true
			}
			continue // summary section: checked by C05
		}
		switch tok {
		case TokenHeader:
			h, err := ParseHeader(rec)
			vAssert(err == nil, "header parses")
			vAssert(!sawHeader && pos == 0 && mpos == 0 && len(atts) == 0, "header first and once")
			sawHeader = true
			vAssert(vStrEq(h.Profile, wl.header.Profile), "header profile")
			vAssert(vStrEq(h.Library, vExpectedLibrary(opts, &wl.header)), "header library")
		case TokenSchema:
			s, err := ParseSchema(rec)
			vAssert(err == nil, "schema parses")
			vAssert(pos < len(expData) && wl.recs[expData[pos]].kind == vKSchema, "schema in order")
			vAssert(vSchemaEq(s, wl.recs[expData[pos]].schema), "schema fields")
			schemas = append(schemas, s)
			pos++
		case TokenChannel:
			c, err := ParseChannel(rec)
			vAssert(err == nil, "channel parses")
			vAssert(pos < len(expData) && wl.recs[expData[pos]].kind == vKChannel, "channel in order")
			vAssert(vChannelEq(c, wl.recs[expData[pos]].channel), "channel fields")
			channels = append(channels, c)
			pos++
		case TokenMessage:
			m, err := ParseMessage(rec)
			vAssert(err == nil, "message parses")
			vAssert(pos < len(expData) && wl.recs[expData[pos]].kind == vKMessage, "message in order")
			vAssert(vMessageEq(m, wl.recs[expData[pos]].msg), "message fields")
			messages = append(messages, m)
			pos++
		case TokenMetadata:
			md, err := ParseMetadata(rec)
			vAssert(err == nil, "metadata parses")
			vAssert(mpos < len(expMeta), "metadata in order")
			e := wl.recs[expMeta[mpos]].md
			vAssert(vAnd(vStrEq(md.Name, e.Name), vMapEq(md.Metadata, e.Metadata)), "metadata fields")
			metas = append(metas, md)
			mpos++
		case TokenDataEnd:
			sawDataEnd = true
		case TokenChunk, TokenFooter:
			vAssert(false, "chunk/footer token in the data section of a de-chunking lexer")
		}
	}
	vAssert(sawHeader && sawDataEnd && sawFooter, "header, data end and footer seen")
	vAssert(pos == len(expData) && mpos == len(expMeta) && len(atts) == nExpAtt, "every written record was read back")
	// attachments: fields, data, crc
	ai := 0
	for i := range wl.recs {
		if wl.recs[i].kind != vKAttachment {
			continue
		}
		a, g := wl.recs[i].att, &atts[ai]
		ai++
		vAssert(vAnd(g.ar.LogTime == a.logTime, g.ar.CreateTime == a.createTime), "attachment times")
		vAssert(vAnd(vStrEq(g.ar.Name, a.name), vStrEq(g.ar.MediaType, a.mediaType)), "attachment strings")
		vAssert(g.ar.DataSize == uint64(len(a.data)), "attachment size")
		vAssert(vBytesEq(g.data, a.data), "attachment data")
		vAssert(g.pcrc == g.ccrc, "attachment stored crc equals computed crc")
	}
	// values returned earlier are not altered by later reads
	si, ci, mi, di := 0, 0, 0, 0
	for i := range wl.recs {
		switch wl.recs[i].kind {
		case vKSchema:
			vAssert(vSchemaEq(schemas[si], wl.recs[i].schema), "schema stable after later reads")
			si++
		case vKChannel:
			vAssert(vChannelEq(channels[ci], wl.recs[i].channel), "channel stable after later reads")
			ci++
		case vKMessage:
			vAssert(vMessageEq(messages[mi], wl.recs[i].msg), "message stable after later reads")
			mi++
		case vKMetadata:
			vAssert(vStrEq(metas[di].Name, wl.recs[i].md.Name), "metadata stable after later reads")
			di++
		}
	}
	vReach("lexed")

	// ---- (b) the non-indexed message iterator (needs the magic) ----
	// NewReader always checks the magic and offers no way to supply a decompressor: lexer side only there
	if opts.SkipMagic || cfg&4 != 0 {
		vReach("end")
		return
	}
	r, err := NewReader(vReadOnly{vNewSource(file)})
	vAssert(err == nil, "NewReader succeeds")
	nmeta := 0
	var seenMd []*Metadata
	it, err := r.Messages(UsingIndex(false), WithMetadataCallback(func(md *Metadata) error {
		seenMd = append(seenMd, md)
		nmeta++
		return nil
	}))
	vAssert(err == nil, "Messages(UsingIndex(false)) succeeds")
	type triple struct {
		s *Schema
		c *Channel
		m *Message
	}
	var got []triple
	for {
		s, c, m, err := it.NextInto(nil)
		if err != nil {
			vAssert(err == io.EOF, "iterator ends with EOF")
			break
		}
		got = append(got, triple{s, c, m})
	}
	// expected: each message with the latest channel/schema definitions preceding it
	curCh := map[uint16]*Channel{}
	curSc := map[uint16]*Schema{}
	gi := 0
	for i := range wl.recs {
		switch wl.recs[i].kind {
		case vKSchema:
			curSc[wl.recs[i].schema.ID] = wl.recs[i].schema
		case vKChannel:
			curCh[wl.recs[i].channel.ID] = wl.recs[i].channel
		case vKMessage:
			vAssert(gi < len(got), "iterator returned every message")
			g := got[gi]
			gi++
			em := wl.recs[i].msg
			vAssert(vMessageEq(g.m, em), "iterated message fields")
			ec := curCh[em.ChannelID]
			vAssert(g.c != nil && vChannelEq(g.c, ec), "message bound to its channel")
			if ec.SchemaID == 0 {
				vAssert(g.s == nil, "schemaless channel has nil schema")
			} else {
				vAssert(g.s != nil && vSchemaEq(g.s, curSc[ec.SchemaID]), "message bound to its schema")
			}
		}
	}
	vAssert(gi == len(got), "iterator returned no extra message")
	// the documented reuse patterns: NextInto with one reused Message whose Data starts as a zero-length slice with
	// spare capacity, and Next with such a scratch buffer; every message must be complete when it is returned
	for pass := 0; pass < 2; pass++ {
		r2, err := NewReader(vReadOnly{vNewSource(file)})
		vAssert(err == nil, "NewReader (reuse pass)")
		it2, err := r2.Messages(UsingIndex(false))
		vAssert(err == nil, "Messages (reuse pass)")
		reused := &Message{Data: make([]byte, 0, 16)}
		scratch := make([]byte, 0, 16)
		k := 0
		for i := range wl.recs {
			if wl.recs[i].kind != vKMessage {
				continue
			}
			var m *Message
			var err error
			if pass == 0 {
				_, _, m, err = it2.NextInto(reused)
			} else {
				_, _, m, err = it2.Next(scratch)
			}
			vAssert(err == nil, "reuse pass: message available")
			if err != nil {
				break
			}
			vAssert(len(m.Data) == len(wl.recs[i].msg.Data) && vMessageEq(m, wl.recs[i].msg), "message complete and equal when a caller-supplied buffer is reused")
			k++
		}
	}
	nm := 0
	for i := range wl.recs {
		if wl.recs[i].kind == vKMetadata {
			vAssert(nm < len(seenMd), "metadata callback saw every metadata record")
			vAssert(vAnd(vStrEq(seenMd[nm].Name, wl.recs[i].md.Name), vMapEq(seenMd[nm].Metadata, wl.recs[i].md.Metadata)), "metadata callback content")
			nm++
		}
	}
	vAssert(nm == nmeta, "metadata callback count")
	vReach("end")
}
