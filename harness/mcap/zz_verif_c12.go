//go:build verif

package mcap

import (
	"io"
)

func eChannelOf(c *eContent, id uint16) *Channel {
	for _, ch := range c.channels {
		if ch.ID == id {
			return ch
		}
	}
	return nil
}
func eSchemaOf(c *eContent, id uint16) *Schema {
	for _, s := range c.schemas {
		if s.ID == id {
			return s
		}
	}
	return nil
}

func eMsgEq(m *Message, e *eMsg) bool {
	return vAnd(vAnd(vAnd(m.ChannelID == e.ch, m.Sequence == e.seq), vAnd(m.LogTime == e.log, m.PublishTime == e.pub)), vBytesEq(m.Data, e.data))
}

// vReadersSeeContent: every reader returns exactly the logical content c from file (laid out by l).
// strict: ordered index-based reads must succeed (the layout has chunk indexes and repeated channels/schemas).
func vReadersSeeContent(file []byte, c *eContent, l *eLayout, validate bool, label string) {
	anyXor := false
	for _, x := range l.xor {
		anyXor = anyXor || x
	}
	// (0) the raw record stream: lexer with EmitChunks, every chunk, message index, data end, summary offset and
	// footer record parsed by the library's Parse* and compared with what the encoder laid out
	{
		lex, err := NewLexer(vNewSource(file), &LexerOptions{EmitChunks: true})
		vAssert(err == nil, label+": NewLexer (raw)")
		ci, mi, gi := -1, 0, 0
		for {
			tok, rec, err := lex.Next(nil)
			if err != nil {
				vAssert(err == io.EOF, label+": raw lexer reaches EOF")
				break
			}
			switch tok {
			case TokenChunk:
				ci++
				mi = 0
				c, err := ParseChunk(rec)
				vAssert(err == nil && ci < len(eLast.chunks), label+": chunk record parses")
				if err == nil && ci < len(eLast.chunks) {
					e := &eLast.chunks[ci]
					vAssert(vAnd(c.MessageStartTime == e.startT, c.MessageEndTime == e.endT), label+": ParseChunk times")
					vAssert(c.UncompressedSize == e.uncompressN && c.Compression == e.comp && c.UncompressedCRC == eLast.chunkCRC[ci], label+": ParseChunk size, compression, crc")
					vAssert(len(c.Records) == len(eLast.stored[ci]) && vBytesEq(c.Records, eLast.stored[ci]), label+": ParseChunk records")
				}
			case TokenMessageIndex:
				x, err := ParseMessageIndex(rec)
				vAssert(err == nil && ci >= 0 && ci < len(eLast.msgIdx) && mi < len(eLast.msgIdx[ci]), label+": message index record parses in place")
				if err == nil && ci >= 0 && ci < len(eLast.msgIdx) && mi < len(eLast.msgIdx[ci]) {
					e := &eLast.msgIdx[ci][mi]
					ents := x.Entries()
					vAssert(x.ChannelID == e.ch && len(ents) == len(e.entries), label+": ParseMessageIndex channel and entry count")
					for k := range ents {
						if k < len(e.entries) {
							vAssert(vAnd(ents[k].Timestamp == e.entries[k].t, ents[k].Offset == e.entries[k].off), label+": ParseMessageIndex entry")
						}
					}
				}
				mi++
			case TokenDataEnd:
				d, err := ParseDataEnd(rec)
				vAssert(err == nil && d.DataSectionCRC == eLast.dataCRC, label+": ParseDataEnd crc")
			case TokenSummaryOffset:
				so, err := ParseSummaryOffset(rec)
				vAssert(err == nil && gi < len(eLast.groups), label+": summary offset parses")
				if err == nil && gi < len(eLast.groups) {
					g := eLast.groups[gi]
					vAssert(byte(so.GroupOpcode) == g.op && so.GroupStart == g.start && so.GroupLength == g.length, label+": ParseSummaryOffset fields")
				}
				gi++
			case TokenFooter:
				f, err := ParseFooter(rec)
				vAssert(err == nil && f.SummaryStart == eLast.sumStart && f.SummaryOffsetStart == eLast.sumOffStart && f.SummaryCRC == eLast.sumCRC, label+": ParseFooter fields")
			}
		}
		vAssert(ci+1 == len(eLast.chunks), label+": raw lexer saw every chunk")
	}
	// (1) lexer
	evs, err := vLexEvents(vNewSource(file), &LexerOptions{ValidateChunkCRCs: validate, Decompressors: map[CompressionFormat]ResettableReader{"xor": &vXorReader{}}})
	vAssert(err == io.EOF, label+": lexer reaches EOF")
	mi, ai, di := 0, 0, 0
	sawHeader := false
	inSummary := false
	for i := range evs {
		ev := &evs[i]
		if ev.att {
			vAssert(ai < len(c.atts), label+": lexer: no extra attachment")
			if ai < len(c.atts) {
				a := c.atts[ai]
				vAssert(vAnd(vAnd(ev.ar.LogTime == a.logTime, ev.ar.CreateTime == a.createTime), vAnd(vStrEq(ev.ar.Name, a.name), vStrEq(ev.ar.MediaType, a.mediaType))), label+": lexer: attachment fields")
				vAssert(len(ev.data) == len(a.data) && vBytesEq(ev.data, a.data), label+": lexer: attachment data")
			}
			ai++
			continue
		}
		switch ev.tok {
		case TokenHeader:
			h, err := ParseHeader(ev.rec)
			vAssert(err == nil && !sawHeader, label+": lexer: one header")
			sawHeader = true
			vAssert(vStrEq(h.Profile, c.profile) && vStrEq(h.Library, c.library), label+": lexer: header fields")
		case TokenDataEnd:
			inSummary = true
		case TokenSchema:
			s, err := ParseSchema(ev.rec)
			vAssert(err == nil, label+": lexer: schema parses")
			e := eSchemaOf(c, s.ID)
			vAssert(e != nil && vSchemaEq(s, e), label+": lexer: schema content")
		case TokenChannel:
			ch, err := ParseChannel(ev.rec)
			vAssert(err == nil, label+": lexer: channel parses")
			e := eChannelOf(c, ch.ID)
			vAssert(e != nil && vChannelEq(ch, e), label+": lexer: channel content")
		case TokenMessage:
			m, err := ParseMessage(ev.rec)
			vAssert(err == nil && !inSummary, label+": lexer: message parses")
			vAssert(mi < len(c.msgs), label+": lexer: no extra message")
			if mi < len(c.msgs) {
				vAssert(eMsgEq(m, &c.msgs[mi]), label+": lexer: message fields in write order")
			}
			mi++
		case TokenMetadata:
			md, err := ParseMetadata(ev.rec)
			vAssert(err == nil, label+": lexer: metadata parses")
			vAssert(di < len(c.mds), label+": lexer: no extra metadata")
			if di < len(c.mds) {
				vAssert(vAnd(vStrEq(md.Name, c.mds[di].Name), vMapEq(md.Metadata, c.mds[di].Metadata)), label+": lexer: metadata content")
			}
			di++
		}
	}
	vAssert(sawHeader && mi == len(c.msgs) && ai == len(c.atts) && di == len(c.mds), label+": lexer: every record seen")
	if anyXor {
		return // the Reader API cannot be given a decompressor
	}
	// (2) non-indexed iterator
	checkSeq := func(got []vMsgOut, order []int, what string) {
		vAssert(len(got) == len(order), label+": "+what+": every message once")
		for i := range got {
			if i >= len(order) {
				break
			}
			e := &c.msgs[order[i]]
			vAssert(eMsgEq(&got[i].m, e), label+": "+what+": message fields")
			ch := eChannelOf(c, e.ch)
			vAssert(got[i].cid == e.ch && got[i].hasS == (ch.SchemaID != 0) && got[i].sid == ch.SchemaID, label+": "+what+": channel and schema binding")
		}
	}
	fileOrder := make([]int, len(c.msgs))
	for i := range fileOrder {
		fileOrder[i] = i
	}
	got, err := vIterMessages(vReadOnly{vNewSource(file)})
	vAssert(err == io.EOF, label+": non-indexed iteration reaches EOF")
	checkSeq(got, fileOrder, "non-indexed")
	// (3) Info
	r, err := NewReader(vNewSource(file))
	vAssert(err == nil, label+": NewReader")
	info, err := r.Info()
	vAssert(err == nil, label+": Info succeeds")
	if l.repChannels {
		vAssert(len(info.Channels) == len(c.channels), label+": Info lists every channel")
		for _, e := range c.channels {
			g := info.Channels[e.ID]
			vAssert(g != nil && vChannelEq(g, e), label+": Info channel content")
		}
	}
	if l.repSchemas {
		vAssert(len(info.Schemas) == len(c.schemas), label+": Info lists every schema")
		for _, e := range c.schemas {
			g := info.Schemas[e.ID]
			vAssert(g != nil && vSchemaEq(g, e), label+": Info schema content")
		}
	}
	if l.stats {
		st := info.Statistics
		vAssert(st != nil && st.MessageCount == uint64(len(c.msgs)) && st.ChunkCount == uint32(len(l.chunks)), label+": Info statistics")
		if st != nil {
			vAssert(uint64(st.SchemaCount) == uint64(len(c.schemas)) && uint64(st.ChannelCount) == uint64(len(c.channels)) && uint64(st.AttachmentCount) == uint64(len(c.atts)) && uint64(st.MetadataCount) == uint64(len(c.mds)), label+": Info statistics counts")
			var lo, hi uint64
			for i := range c.msgs {
				t := c.msgs[i].log
				if i == 0 {
					lo, hi = t, t
				} else {
					lo = vIte(t < lo, t, lo)
					hi = vIte(t > hi, t, hi)
				}
			}
			vAssert(vAnd(st.MessageStartTime == lo, st.MessageEndTime == hi), label+": Info statistics time range")
			per := map[uint16]uint64{}
			for i := range c.msgs {
				per[c.msgs[i].ch]++
			}
			for id, n := range per {
				vAssert(st.ChannelMessageCounts[id] == n, label+": Info statistics per-channel counts")
			}
		}
	}
	if l.chunkIdx {
		vAssert(len(info.ChunkIndexes) == len(l.chunks), label+": Info lists every chunk index")
		// every field of every chunk index as laid out (Info keeps summary order = chunk order here)
		for i, g := range info.ChunkIndexes {
			if i >= len(eLast.chunks) {
				break
			}
			e := &eLast.chunks[i]
			vAssert(g.ChunkStartOffset == e.start && g.ChunkLength == e.length && g.MessageIndexLength == e.idxLen, label+": Info chunk index location fields")
			vAssert(vAnd(g.MessageStartTime == e.startT, g.MessageEndTime == e.endT), label+": Info chunk index times")
			vAssert(g.CompressedSize == e.compressedN && g.UncompressedSize == e.uncompressN && string(g.Compression) == e.comp, label+": Info chunk index sizes and compression")
			if l.msgIdx {
				vAssert(len(g.MessageIndexOffsets) == len(e.idxOff), label+": Info chunk index message index offsets")
				for id, off := range e.idxOff {
					vAssert(g.MessageIndexOffsets[id] == off, label+": Info chunk index message index offset value")
				}
			}
		}
	}
	if l.attIdx {
		vAssert(len(info.AttachmentIndexes) == len(c.atts), label+": Info lists every attachment index")
		for i, ai := range info.AttachmentIndexes {
			if i < len(eLast.atts) {
				e := &eLast.atts[i]
				vAssert(ai.Offset == e.off && ai.Length == e.length && ai.DataSize == uint64(len(e.a.data)), label+": Info attachment index location fields")
				vAssert(vAnd(vAnd(ai.LogTime == e.a.logTime, ai.CreateTime == e.a.createTime), vAnd(vStrEq(ai.Name, e.a.name), vStrEq(ai.MediaType, e.a.mediaType))), label+": Info attachment index value fields")
			}
			ar, err := r.GetAttachmentReader(ai.Offset)
			vAssert(err == nil, label+": attachment reachable through its index")
			d, err := io.ReadAll(ar.Data())
			vAssert(err == nil && len(d) == len(c.atts[i].data) && vBytesEq(d, c.atts[i].data), label+": attachment data through its index")
		}
	}
	if l.mdIdx {
		vAssert(len(info.MetadataIndexes) == len(c.mds), label+": Info lists every metadata index")
		for i, mx := range info.MetadataIndexes {
			if i < len(eLast.mds) {
				vAssert(mx.Offset == eLast.mds[i].off && mx.Length == eLast.mds[i].length && vStrEq(mx.Name, eLast.mds[i].name), label+": Info metadata index fields")
			}
			md, err := r.GetMetadata(mx.Offset)
			vAssert(err == nil && vStrEq(md.Name, c.mds[i].Name) && vMapEq(md.Metadata, c.mds[i].Metadata), label+": metadata through its index")
		}
	}
	// (4) Messages() in the three orders
	indexed := l.chunks != nil && l.chunkIdx && l.repChannels
	strict := indexed && l.repSchemas
	for ord := 0; ord <= 2; ord++ {
		got, err := vIndexedMessages(vNewSource(file), ord)
		if err != io.EOF {
			// refusing is legitimate only where the layout lacks what an index-based (ordered) read needs
			vAssert(!strict && (ord != 0 || indexed), label+": Messages() must succeed on this layout")
			continue
		}
		if ord == 0 {
			checkSeq(got, fileOrder, "Messages(file order)")
			continue
		}
		// time order: each message exactly once (by tag = sequence), with its own fields, monotonic
		vAssert(len(got) == len(c.msgs), label+": ordered read: every message once")
		seen := make([]bool, len(c.msgs))
		for i := range got {
			tag := int(got[i].m.Sequence)
			vAssert(tag >= 0 && tag < len(c.msgs) && !seen[tag], label+": ordered read: exactly once")
			if tag < 0 || tag >= len(c.msgs) {
				continue
			}
			seen[tag] = true
			vAssert(eMsgEq(&got[i].m, &c.msgs[tag]), label+": ordered read: message fields")
			if i > 0 {
				if ord == 1 {
					vAssert(got[i].m.LogTime >= got[i-1].m.LogTime, label+": log-time order")
				} else {
					vAssert(got[i].m.LogTime <= got[i-1].m.LogTime, label+": reverse log-time order")
				}
			}
		}
	}
}

// C12: the same logical content under every legal layout.
// params: n, att, part, xor, defs, perm, opt, attAfter, validate, self (1: also run the specification decoder over
// the encoder's output, which validates the encoder itself)
func VC12Layout() {
	n := vParam("n")
	c := vEncContent(n, vParam("att") == 1, true)
	l := vLayout(n, vParam("part"), vParam("xor"), vParam("defs"), vParam("perm"), vParam("opt"), vParam("attAfter"))
	file := vSpecEncode(c, l)
	if vParam("self") == 1 {
		f := vSpecDecode(file, false)
		vSpecPointers(f, sWant{chunkIndex: l.chunkIdx, msgIndex: l.msgIdx, attIndex: l.attIdx, mdIndex: l.mdIdx, sumOffsets: l.sumOff})
		vSpecCRCs(f, l.crc)
		vReach("encoder-output-is-spec-valid")
	}
	vReadersSeeContent(file, c, l, vParam("validate") == 1, "layout")
	vReach("end")
}

// C11: unknown records and appended fields are skipped, not misread: the same content and layout with (i) a
// record of symbolic unknown opcode (0x10..0xFF... minus none: every opcode the library does not know) and
// symbolic body inserted at position class unk, and/or (ii) pad symbolic bytes appended to every extensible
// record, reads exactly like the plain file.
// params: n, att, part, defs, perm, opt, attAfter, validate, unk (position class, 0 none), ulen (body length), pad
func VC11Unknown() {
	n := vParam("n")
	c := vEncContent(n, vParam("att") == 1, true)
	l := vLayout(n, vParam("part"), 0, vParam("defs"), vParam("perm"), vParam("opt"), vParam("attAfter"))
	l.pad = vParam("pad")
	l.padTag = "x"
	l.unkPos = vParam("unk")
	if l.unkPos != 0 {
		op := vSymU8("unk_op")
		vAssume(op >= 0x10)
		l.unkOp = op
		l.unkBody = vSymBytes("unk_body", vParam("ulen"), vParam("ulen"))
	}
	file := vSpecEncode(c, l)
	vReadersSeeContent(file, c, l, vParam("validate") == 1, "extended")
	vReach("end")
}
