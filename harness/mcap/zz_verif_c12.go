//go:build verif

package mcap

import (
	"io"
)

func eChannelOf(c *eContent, id uint16) *Channel {
	for _, ch := range c.channels {
		if ch.ID == id {
			return ch
		}
	}
	return nil
}
func eSchemaOf(c *eContent, id uint16) *Schema {
	for _, s := range c.schemas {
		if s.ID == id {
			return s
		}
	}
	return nil
}

func eMsgEq(m *Message, e *eMsg) bool {
	return vAnd(vAnd(vAnd(m.ChannelID == e.ch, m.Sequence == e.seq), vAnd(m.LogTime == e.log, m.PublishTime == e.pub)), vBytesEq(m.Data, e.data))
}

// vReadersSeeContent: every reader returns exactly the logical content c from file (laid out by l).
// strict: ordered index-based reads must succeed (the layout has chunk indexes and repeated channels/schemas).
func vReadersSeeContent(file []byte, c *eContent, l *eLayout, validate bool, label string) {
	anyXor := false
	for _, x := range l.xor {
		anyXor = anyXor || x
	}
	// (1) lexer
	evs, err := vLexEvents(vNewSource(file), &LexerOptions{ValidateChunkCRCs: validate, Decompressors: map[CompressionFormat]ResettableReader{"xor": &vXorReader{}}})
	vAssert(err == io.EOF, label+": lexer reaches EOF")
	mi, ai, di := 0, 0, 0
	sawHeader := false
	inSummary := false
	for i := range evs {
		ev := &evs[i]
		if ev.att {
			vAssert(ai < len(c.atts), label+": lexer: no extra attachment")
			if ai < len(c.atts) {
				a := c.atts[ai]
				vAssert(vAnd(vAnd(ev.ar.LogTime == a.logTime, ev.ar.CreateTime == a.createTime), vAnd(vStrEq(ev.ar.Name, a.name), vStrEq(ev.ar.MediaType, a.mediaType))), label+": lexer: attachment fields")
				vAssert(len(ev.data) == len(a.data) && vBytesEq(ev.data, a.data), label+": lexer: attachment data")
			}
			ai++
			continue
		}
		switch ev.tok {
		case TokenHeader:
			h, err := ParseHeader(ev.rec)
			vAssert(err == nil && !sawHeader, label+": lexer: one header")
			sawHeader = true
			vAssert(vStrEq(h.Profile, c.profile) && vStrEq(h.Library, c.library), label+": lexer: header fields")
		case TokenDataEnd:
			inSummary = true
		case TokenSchema:
			s, err := ParseSchema(ev.rec)
			vAssert(err == nil, label+": lexer: schema parses")
			e := eSchemaOf(c, s.ID)
			vAssert(e != nil && vSchemaEq(s, e), label+": lexer: schema content")
		case TokenChannel:
			ch, err := ParseChannel(ev.rec)
			vAssert(err == nil, label+": lexer: channel parses")
			e := eChannelOf(c, ch.ID)
			vAssert(e != nil && vChannelEq(ch, e), label+": lexer: channel content")
		case TokenMessage:
			m, err := ParseMessage(ev.rec)
			vAssert(err == nil && !inSummary, label+": lexer: message parses")
			vAssert(mi < len(c.msgs), label+": lexer: no extra message")
			if mi < len(c.msgs) {
				vAssert(eMsgEq(m, &c.msgs[mi]), label+": lexer: message fields in write order")
			}
			mi++
		case TokenMetadata:
			md, err := ParseMetadata(ev.rec)
			vAssert(err == nil, label+": lexer: metadata parses")
			vAssert(di < len(c.mds), label+": lexer: no extra metadata")
			if di < len(c.mds) {
				vAssert(vAnd(vStrEq(md.Name, c.mds[di].Name), vMapEq(md.Metadata, c.mds[di].Metadata)), label+": lexer: metadata content")
			}
			di++
		}
	}
	vAssert(sawHeader && mi == len(c.msgs) && ai == len(c.atts) && di == len(c.mds), label+": lexer: every record seen")
	if anyXor {
		return // the Reader API cannot be given a decompressor
	}
	// (2) non-indexed iterator
	checkSeq := func(got []vMsgOut, order []int, what string) {
		vAssert(len(got) == len(order), label+": "+what+": every message once")
		for i := range got {
			if i >= len(order) {
				break
			}
			e := &c.msgs[order[i]]
			vAssert(eMsgEq(&got[i].m, e), label+": "+what+": message fields")
			ch := eChannelOf(c, e.ch)
			vAssert(got[i].cid == e.ch && got[i].hasS == (ch.SchemaID != 0) && got[i].sid == ch.SchemaID, label+": "+what+": channel and schema binding")
		}
	}
	fileOrder := make([]int, len(c.msgs))
	for i := range fileOrder {
		fileOrder[i] = i
	}
	got, err := vIterMessages(vReadOnly{vNewSource(file)})
	vAssert(err == io.EOF, label+": non-indexed iteration reaches EOF")
	checkSeq(got, fileOrder, "non-indexed")
	// (3) Info
	r, err := NewReader(vNewSource(file))
	vAssert(err == nil, label+": NewReader")
	info, err := r.Info()
	vAssert(err == nil, label+": Info succeeds")
	if l.repChannels {
		vAssert(len(info.Channels) == len(c.channels), label+": Info lists every channel")
		for _, e := range c.channels {
			g := info.Channels[e.ID]
			vAssert(g != nil && vChannelEq(g, e), label+": Info channel content")
		}
	}
	if l.repSchemas {
		vAssert(len(info.Schemas) == len(c.schemas), label+": Info lists every schema")
		for _, e := range c.schemas {
			g := info.Schemas[e.ID]
			vAssert(g != nil && vSchemaEq(g, e), label+": Info schema content")
		}
	}
	if l.stats {
		vAssert(info.Statistics != nil && info.Statistics.MessageCount == uint64(len(c.msgs)) && info.Statistics.ChunkCount == uint32(len(l.chunks)), label+": Info statistics")
	}
	if l.chunkIdx {
		vAssert(len(info.ChunkIndexes) == len(l.chunks), label+": Info lists every chunk index")
	}
	if l.attIdx {
		vAssert(len(info.AttachmentIndexes) == len(c.atts), label+": Info lists every attachment index")
		for i, ai := range info.AttachmentIndexes {
			ar, err := r.GetAttachmentReader(ai.Offset)
			vAssert(err == nil, label+": attachment reachable through its index")
			d, err := io.ReadAll(ar.Data())
			vAssert(err == nil && len(d) == len(c.atts[i].data) && vBytesEq(d, c.atts[i].data), label+": attachment data through its index")
		}
	}
	if l.mdIdx {
		vAssert(len(info.MetadataIndexes) == len(c.mds), label+": Info lists every metadata index")
		for i, mx := range info.MetadataIndexes {
			md, err := r.GetMetadata(mx.Offset)
			vAssert(err == nil && vStrEq(md.Name, c.mds[i].Name) && vMapEq(md.Metadata, c.mds[i].Metadata), label+": metadata through its index")
		}
	}
	// (4) Messages() in the three orders
	indexed := l.chunks != nil && l.chunkIdx && l.repChannels
	strict := indexed && l.repSchemas
	for ord := 0; ord <= 2; ord++ {
		got, err := vIndexedMessages(vNewSource(file), ord)
		if err != io.EOF {
			// refusing is legitimate only where the layout lacks what an index-based (ordered) read needs
			vAssert(!strict && (ord != 0 || indexed), label+": Messages() must succeed on this layout")
			continue
		}
		if ord == 0 {
			checkSeq(got, fileOrder, "Messages(file order)")
			continue
		}
		// time order: each message exactly once (by tag = sequence), with its own fields, monotonic
		vAssert(len(got) == len(c.msgs), label+": ordered read: every message once")
		seen := make([]bool, len(c.msgs))
		for i := range got {
			tag := int(got[i].m.Sequence)
			vAssert(tag >= 0 && tag < len(c.msgs) && !seen[tag], label+": ordered read: exactly once")
			if tag < 0 || tag >= len(c.msgs) {
				continue
			}
			seen[tag] = true
			vAssert(eMsgEq(&got[i].m, &c.msgs[tag]), label+": ordered read: message fields")
			if i > 0 {
				if ord == 1 {
					vAssert(got[i].m.LogTime >= got[i-1].m.LogTime, label+": log-time order")
				} else {
					vAssert(got[i].m.LogTime <= got[i-1].m.LogTime, label+": reverse log-time order")
				}
			}
		}
	}
}

// C12: the same logical content under every legal layout.
// params: n, att, part, xor, defs, perm, opt, attAfter, validate, self (1: also run the specification decoder over
// the encoder's output, which validates the encoder itself)
func VC12Layout() {
	n := vParam("n")
	c := vEncContent(n, vParam("att") == 1, true)
	l := vLayout(n, vParam("part"), vParam("xor"), vParam("defs"), vParam("perm"), vParam("opt"), vParam("attAfter"))
	file := vSpecEncode(c, l)
	if vParam("self") == 1 {
		f := vSpecDecode(file, false)
		vSpecPointers(f, sWant{chunkIndex: l.chunkIdx, msgIndex: l.msgIdx, attIndex: l.attIdx, mdIndex: l.mdIdx, sumOffsets: l.sumOff})
		vSpecCRCs(f, l.crc)
		vReach("encoder-output-is-spec-valid")
	}
	vReadersSeeContent(file, c, l, vParam("validate") == 1, "layout")
	vReach("end")
}

// C11: unknown records and appended fields are skipped, not misread: the same content and layout with (i) a
// record of symbolic unknown opcode (0x10..0xFF... minus none: every opcode the library does not know) and
// symbolic body inserted at position class unk, and/or (ii) pad symbolic bytes appended to every extensible
// record, reads exactly like the plain file.
// params: n, att, part, defs, perm, opt, attAfter, validate, unk (position class, 0 none), ulen (body length), pad
func VC11Unknown() {
	n := vParam("n")
	c := vEncContent(n, vParam("att") == 1, true)
	l := vLayout(n, vParam("part"), 0, vParam("defs"), vParam("perm"), vParam("opt"), vParam("attAfter"))
	l.pad = vParam("pad")
	l.padTag = "x"
	l.unkPos = vParam("unk")
	if l.unkPos != 0 {
		op := vSymU8("unk_op")
		vAssume(op >= 0x10)
		l.unkOp = op
		l.unkBody = vSymBytes("unk_body", vParam("ulen"), vParam("ulen"))
	}
	file := vSpecEncode(c, l)
	vReadersSeeContent(file, c, l, vParam("validate") == 1, "extended")
	vReach("end")
}
