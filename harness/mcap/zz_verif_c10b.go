//go:build verif

package mcap

import (
	"io"
)

// C10 family 2: ONE lexer step from an arbitrary state. Panic-freedom and allocation ceilings depend on the
// lexer's state and the bytes ahead, not on how the state was reached, so one step from any state covers any
// history. The state space is partitioned by the opcode of the record ahead (param op; 256 = any unknown opcode
// >= 0x10 with the input holding exactly that record), by inChunk, and by the option set.
// params: op, max (bytes ahead), inchunk, validate, emit (EmitChunks), lim (0: no caller limits; else MaxRecordSize =
// MaxDecompressedChunkSize = lim and the allocation ceiling is 2*lim), long (attachment without callback: record longer than the input)
func VC10LexStep() {
	op, max, inchunk := vParam("op"), vParam("max"), vParam("inchunk") == 1
	lim := vParam("lim")
	vLoopBound(256) // inputs are at most 64 bytes: no loop of the library can legitimately run that often
	n := vSymInt("n")
	in := vSymBytes("in", n, max)
	vAssume(n >= 1)
	if op < 256 {
		vAssume(in[0] == byte(op))
		if op == 9 && vParam("cb") == 0 {
			// an attachment without a callback is skipped and the lexer goes on to the next record (a second step).
			// Partition of the record length L: L+9 == n (exactly this record ahead: after the skip the lexer is at end
			// of input), L+9 > n (the record claims more than there is, up to 2^64-1) - one job each; L+9 < n is the
			// state "another record ahead", which the other jobs start from.
			vAssume(n >= 9)
			if vParam("long") == 1 {
				vAssume(sU64(in, 1) > uint64(n-9))
			} else {
				vAssume(uint64(n) == 9+sU64(in, 1))
			}
		}
	} else {
		vAssume(in[0] >= 0x10)
		vAssume(n >= 9)
		// exactly one record ahead: after skipping it the lexer is at end of input (the state one step later)
		vAssume(uint64(n) == 9+sU64(in, 1))
	}
	opts := &LexerOptions{SkipMagic: true, ValidateChunkCRCs: vParam("validate") == 1, EmitChunks: vParam("emit") == 1,
		EmitInvalidChunks: vSymBool("emitInvalid"), ComputeAttachmentCRCs: vSymBool("attCRC"),
		Decompressors: map[CompressionFormat]ResettableReader{"xor": &vXorReader{}}}
	if lim > 0 {
		opts.MaxRecordSize, opts.MaxDecompressedChunkSize = lim, lim
		vAllocLimit(2 * lim)
	}
	if vParam("cb") == 1 {
		opts.AttachmentCallback = func(ar *AttachmentReader) error {
			_, _ = io.ReadAll(ar.Data())
			_, _ = ar.ParsedCRC()
			_, _ = ar.ComputedCRC()
			return nil
		}
	}
	src := vNewSource(in)
	lex, err := NewLexer(src, opts)
	vAssert(err == nil, "NewLexer without magic check")
	if inchunk {
		k := vSymInt("remaining")
		vAssume(vAnd(k >= 0, k <= max))
		lex.inChunk = true
		lex.reader = &io.LimitedReader{R: src, N: int64(k)}
	}
	_, rec, err := lex.Next(nil)
	if err == nil && lim > 0 {
		vAssert(len(rec) <= lim, "a returned record respects MaxRecordSize")
	}
	vReach("end")
}

// C10 family 3: the indexed reader's units on hostile data.

// vArbitraryIterator: an indexed iterator over an arbitrary file of at most max bytes.
func vArbitraryIterator(max int) (*indexedMessageIterator, []byte) {
	n := vSymInt("n")
	file := vSymBytes("file", n, max)
	it := &indexedMessageIterator{rs: vNewSource(file), fileSize: int64(n), noEnd: true, order: ReadOrder(vParam("ord")), hasReadSummarySection: true}
	it.channels.Set(1, &Channel{ID: 1, Topic: "a"})
	return it, file
}

// loadChunk with an arbitrary chunk index (every field symbolic) over an arbitrary file, then the pending
// messages are yielded: no panic, no allocation above the ceiling, loops terminate.
// params: max, ord
func VC10IdxLoadChunk() {
	vLoopBound(4096)
	it, _ := vArbitraryIterator(vParam("max"))
	ci := &ChunkIndex{ChunkStartOffset: vSymU64("off"), ChunkLength: vSymU64("len"), MessageStartTime: vSymU64("st"), MessageEndTime: vSymU64("et")}
	err := it.loadChunk(ci)
	if err == nil {
		vReach("loaded")
		// representation invariant of what was appended (what NextInto relies on)
		for i := range it.messageIndexes {
			mi := it.messageIndexes[i]
			vAssert(mi.chunkSlotIndex >= 0 && mi.chunkSlotIndex < len(it.chunkSlots), "pending message refers to an existing slot")
		}
		for k := 0; k < 3; k++ {
			_, _, _, err := it.NextInto(nil)
			if err != nil {
				break
			}
		}
	}
	vReach("end")
}

// readRecord on arbitrary bytes. params: max
func VC10ReadRecord() {
	vLoopBound(4096)
	n := vSymInt("n")
	in := vSymBytes("in", n, vParam("max"))
	_, _, _ = readRecord(vNewSource(in), nil)
	vReach("end")
}

// Whole-API on a hostile summary: a valid file from the real writer in which ONE length/offset/size field of the
// footer or of a summary record (param field) is replaced by an arbitrary 64-bit value; NewReader, Info, Messages in
// order ord, then up to 3 NextInto calls, GetMetadata/GetAttachmentReader at an arbitrary offset.
// params: field, ord
func VC10HostileSummary() {
	vLoopBound(4096)
	field, ord := vParam("field"), vParam("ord")
	wl := vMakeWorkload(6, 1, 2, 0)
	// concrete content keeps the file a constant array: only the hostile field is symbolic
	w, file := vWriteAll(wl, vOptions(3, 0, 1))
	bad := append([]byte(nil), file...)
	v := vSymU64("hostile")
	put64 := func(o int) {
		for i := 0; i < 8; i++ {
			bad[o+i] = byte(v >> (8 * i))
		}
	}
	footer := len(file) - 8 - 20
	// locate the first chunk index / attachment index / metadata index record in the summary
	f := vSpecDecode(file, false)
	var firstCI, firstAI, firstMI int
	for i := range f.summary {
		r := &f.summary[i]
		switch {
		case r.op == 0x08 && firstCI == 0:
			firstCI = r.start + 9
		case r.op == 0x0A && firstAI == 0:
			firstAI = r.start + 9
		case r.op == 0x0D && firstMI == 0:
			firstMI = r.start + 9
		}
	}
	switch field {
	case 0:
		put64(footer) // summary_start
	case 1:
		put64(footer + 8) // summary_offset_start
	case 2:
		put64(firstCI + 16) // chunk_start_offset
	case 3:
		put64(firstCI + 24) // chunk_length
	case 4:
		put64(firstCI + 36 + 10*len(w.ChunkIndexes[0].MessageIndexOffsets)) // message_index_length
	case 5:
		put64(firstAI) // attachment offset
	case 6:
		put64(firstAI + 8) // attachment length
	case 7:
		put64(firstMI) // metadata offset
	case 8:
		put64(int(w.ChunkIndexes[0].ChunkStartOffset) + 9 + 16) // the chunk header's uncompressed_size
	case 9:
		put64(int(w.ChunkIndexes[0].ChunkStartOffset) + 1) // the chunk record's length
	case 10:
		put64(f.summary[0].start + 1) // the first summary record's length
	case 11:
		put64(f.chunks[0].recordsOff + 1) // the length of the first record inside the first chunk
	case 12:
		c := f.chunks[0]
		put64(c.recordsOff + c.inner[len(c.inner)-1].start + 1) // the length of the last record (a message) inside the first chunk
	}
	r, err := NewReader(vNewSource(bad))
	if err != nil {
		vReach("end")
		return
	}
	var ropts []ReadOpt
	switch ord {
	case 1:
		ropts = append(ropts, InOrder(LogTimeOrder))
	case 2:
		ropts = append(ropts, InOrder(ReverseLogTimeOrder))
	}
	ropts = append(ropts, WithMetadataCallback(func(*Metadata) error { return nil }))
	info, ierr := r.Info()
	if ierr == nil {
		for _, ai := range info.AttachmentIndexes {
			ar, err := r.GetAttachmentReader(ai.Offset)
			if err == nil {
				_, _ = io.ReadAll(io.LimitReader(ar.Data(), 64))
			}
		}
		for _, mi := range info.MetadataIndexes {
			_, _ = r.GetMetadata(mi.Offset)
		}
	}
	it, err := r.Messages(ropts...)
	if err == nil {
		for k := 0; k < 4; k++ {
			_, _, _, err := it.NextInto(nil)
			if err != nil {
				break
			}
		}
	}
	vReach("end")
}
