//go:build verif

package mcap

func vWantOf(o *WriterOptions) sWant {
	return sWant{
		chunkIndex: !o.SkipChunkIndex,
		msgIndex:   !o.SkipMessageIndexing,
		attIndex:   !o.SkipAttachmentIndex,
		mdIndex:    !o.SkipMetadataIndex,
		sumOffsets: !o.SkipSummaryOffsets,
	}
}

// C05: the writer's output is a spec-valid file whose every pointer is exact - decided by running the
// specification decoder (zz_verif_spec.go) over the bytes the real writer delivered, with all values symbolic.
// params: tpl, ln, pn, idv, cfg, skip, cs (as C01); crc=1 additionally checks C06
func VC05Layout() {
	tpl, ln, pn, idv := vParam("tpl"), vParam("ln"), vParam("pn"), vParam("idv")
	cfg, skip, cs := vParam("cfg"), vParam("skip"), vParam("cs")
	wl := vMakeWorkload(tpl, ln, pn, idv)
	opts := vOptions(cfg, skip, int64(cs))
	_, file := vWriteAll(wl, opts)
	f := vSpecDecode(file, opts.SkipMagic)
	vReach("grammar")
	vSpecPointers(f, vWantOf(opts))
	if vParam("crc") == 1 {
		vSpecCRCs(f, opts.IncludeCRC)
	}
	// the data section carries exactly the records handed to the writer
	nMsg, nAtt, nMd := 0, 0, 0
	for i := range wl.recs {
		switch wl.recs[i].kind {
		case vKMessage:
			nMsg++
		case vKAttachment:
			nAtt++
		case vKMetadata:
			nMd++
		}
	}
	gotMsg, gotAtt, gotMd := 0, 0, 0
	for i := range f.data {
		switch f.data[i].op {
		case 0x05:
			gotMsg++
		case 0x09:
			gotAtt++
		case 0x0C:
			gotMd++
		}
	}
	for _, c := range f.chunks {
		for k := range c.inner {
			if c.inner[k].op == 0x05 {
				gotMsg++
			}
		}
	}
	vAssert(gotMsg == nMsg && gotAtt == nAtt && gotMd == nMd, "spec: the data section holds every record that was written")
	if opts.Chunked {
		for i := range f.data {
			vAssert(f.data[i].op != 0x03 && f.data[i].op != 0x04 && f.data[i].op != 0x05, "chunked writer puts schema, channel and message records inside chunks")
		}
	} else {
		vAssert(len(f.chunks) == 0, "unchunked writer emits no chunk")
	}
	vReach("end")
}

// C05/C06 on multi-chunk files with fully symbolic log times (chunk header times and message index entries
// depend on them), incl. a chunk that holds only a channel record.
// params: n, per, tail, cfg, skip, crc
func VC05Chunks() {
	n, per, tail := vParam("n"), vParam("per"), vParam("tail")
	opts := vOptions(vParam("cfg")|1, vParam("skip"), int64(32*per-1))
	sink := &vSink{failAt: -1}
	w, err := NewWriter(sink, opts)
	vAssert(err == nil, "NewWriter")
	vAssert(w.WriteHeader(&Header{}) == nil, "header")
	vAssert(w.WriteChannel(&Channel{ID: 1, Topic: "a"}) == nil, "channel a")
	vAssert(w.WriteChannel(&Channel{ID: 2, Topic: "b"}) == nil, "channel b")
	for i := 0; i < n; i++ {
		m := &Message{ChannelID: uint16(1 + i%2), Sequence: uint32(i), LogTime: vSymU64(vN("t", i)), PublishTime: vSymU64(vN("p", i)), Data: vSymBytes(vN("d", i), 1, 1)}
		vAssert(w.WriteMessage(m) == nil, "message")
	}
	if tail == 1 {
		vAssert(w.WriteChannel(&Channel{ID: 3, Topic: "c"}) == nil, "channel c")
	}
	vAssert(w.Close() == nil, "close")
	f := vSpecDecode(sink.b, false)
	vSpecPointers(f, vWantOf(opts))
	if vParam("crc") == 1 {
		vSpecCRCs(f, opts.IncludeCRC)
	}
	vReach("end")
}
