//go:build verif

package mcap

// vMapWorkload: records whose maps have nk entries with symbolic one-byte keys and values; tpl selects the mix.
func vMapWorkload(tpl, nk int) *vWorkload {
	wl := &vWorkload{header: Header{Profile: "p", Library: "l"}}
	switch tpl {
	case 0: // one channel with a metadata map, one message
		wl.recs = []vRec{vChannelRec("c1", 1, 0, 1, nk), vMessageRec("m1", 1, 1)}
	case 1: // one metadata record
		wl.recs = []vRec{vMetadataRec("d1", 1, nk)}
	case 2: // two channels (maps), messages on both in reverse id order, metadata record
		wl.recs = []vRec{vChannelRec("c2", 2, 0, 1, nk), vChannelRec("c1", 1, 0, 1, 1), vMessageRec("m1", 2, 1), vMessageRec("m2", 1, 1), vMetadataRec("d1", 1, 2)}
	case 3: // schema + three channels with small maps + messages spread over chunks
		wl.recs = []vRec{vSchemaRec("s1", 3, 1), vChannelRec("c3", 3, 3, 1, 2), vChannelRec("c1", 1, 0, 1, 2), vChannelRec("c2", 2, 3, 1, 0),
			vMessageRec("m1", 2, 1), vMessageRec("m2", 3, 1), vMessageRec("m3", 1, 1), vMessageRec("m4", 2, 1)}
	case 4: // two schemas and two channels written in descending id order (the writer's own id->record maps), metadata map
		wl.recs = []vRec{vSchemaRec("s2", 2, 1), vSchemaRec("s1", 1, 1), vChannelRec("c2", 2, 2, 1, nk), vChannelRec("c1", 1, 1, 1, 0),
			vMessageRec("m1", 1, 1), vMessageRec("m2", 2, 1)}
	case 5: // five registered channels (descending ids), only two of them carry messages, both in one chunk
		wl.recs = []vRec{vChannelRec("c5", 5, 0, 1, 0), vChannelRec("c4", 4, 0, 1, 0), vChannelRec("c3", 3, 0, 1, nk-1), vChannelRec("c2", 2, 0, 1, 0), vChannelRec("c1", 1, 0, 1, 0),
			vMessageRec("m1", 4, 1), vMessageRec("m2", 2, 1), vMessageRec("m3", 4, 1)}
	}
	return wl
}

// C13 (decided part): the writer's output does not depend on the iteration order of any map - the maps
// passed in (channel metadata, Metadata records) and the writer's own (channels, schemas, message indexes,
// per-channel counts). The workload is written once with every `range` over a map iterating in insertion
// order (reference), then again with every `range` free to take any permutation (the engine forks over all of
// them); the two outputs must be byte-identical. Natively Go randomises map iteration itself, so the replay
// runs the free writer 64 times.
// params: tpl, nk (map entries), cfg, skip, cs
func VC13MapOrder() {
	tpl, nk, cfg, skip, cs := vParam("tpl"), vParam("nk"), vParam("cfg"), vParam("skip"), vParam("cs")
	wl := vMapWorkload(tpl, nk)
	vFreeMapOrder(false)
	_, ref := vWriteAll(wl, vOptions(cfg, skip, int64(cs)))
	rounds := 1
	if !vEngine() {
		rounds = 64
	}
	for i := 0; i < rounds; i++ {
		vFreeMapOrder(true)
		_, out := vWriteAll(wl, vOptions(cfg, skip, int64(cs)))
		vFreeMapOrder(false)
		vAssert(len(out) == len(ref), "same output length under every map iteration order")
		vAssert(vBytesEq(out, ref), "byte-identical output under every map iteration order")
	}
	vReach("end")
}

// C13 (instance isolation): the bytes a writer produces do not depend on another Writer instance being active at
// the same time. The engine has no scheduler; what it decides is every interleaving at the granularity of sink
// writes and API calls: (mode 0) while writer A is inside its k-th sink Write (k symbolic: every write of the
// workload), a second writer B - other options, other workload - runs from NewWriter to Close; (mode 1) the API
// calls of A and B alternate. A's and B's outputs must be byte-identical to what each produces alone.
// params: tpl (A's workload), cfg, cs, mode
func VC13Isolation() {
	tpl, cfg, cs, mode := vParam("tpl"), vParam("cfg"), vParam("cs"), vParam("mode")
	wlA := vMakeWorkload(tpl, 1, 2, 0)
	wlB := vMakeWorkload(6, 3, 5, 1)
	// B's values are its own symbols
	for i := range wlB.recs {
		if wlB.recs[i].kind == vKMessage {
			wlB.recs[i].msg.LogTime = vSymU64(vN("bt", i))
		}
	}
	optsA := func() *WriterOptions { return vOptions(cfg, 0, int64(cs)) }
	optsB := func() *WriterOptions { return vOptions(3, 0, 40) }
	_, refA := vWriteAll(wlA, optsA())
	_, refB := vWriteAll(wlB, optsB())
	sinkA, sinkB := &vSink{failAt: -1}, &vSink{failAt: -1}
	runB := func() {
		w, err := NewWriter(sinkB, optsB())
		vAssert(err == nil, "NewWriter (second instance)")
		vAssert(w.WriteHeader(&wlB.header) == nil, "WriteHeader (second instance)")
		for i := range wlB.recs {
			vAssert(vWriteRec(w, &wlB.recs[i]) == nil, "write call (second instance)")
		}
		vAssert(w.Close() == nil, "Close (second instance)")
	}
	if mode == 0 {
		k := vSymInt("k")
		vAssume(k >= 0 && k < 64)
		sinkA.hookAt, sinkA.hook = k, runB
		wA, err := NewWriter(sinkA, optsA())
		vAssert(err == nil, "NewWriter")
		vAssert(wA.WriteHeader(&wlA.header) == nil, "WriteHeader")
		for i := range wlA.recs {
			vAssert(vWriteRec(wA, &wlA.recs[i]) == nil, "write call")
		}
		vAssert(wA.Close() == nil, "Close")
		if sinkA.hook != nil {
			vReach("k beyond the last write")
			runB()
		} else {
			vReach("second instance ran inside a write")
		}
	} else {
		wA, err := NewWriter(sinkA, optsA())
		vAssert(err == nil, "NewWriter")
		wB, err := NewWriter(sinkB, optsB())
		vAssert(err == nil, "NewWriter (second instance)")
		vAssert(wA.WriteHeader(&wlA.header) == nil, "WriteHeader")
		vAssert(wB.WriteHeader(&wlB.header) == nil, "WriteHeader (second instance)")
		for i := 0; i < len(wlA.recs) || i < len(wlB.recs); i++ {
			if i < len(wlA.recs) {
				vAssert(vWriteRec(wA, &wlA.recs[i]) == nil, "write call")
			}
			if i < len(wlB.recs) {
				vAssert(vWriteRec(wB, &wlB.recs[i]) == nil, "write call (second instance)")
			}
		}
		vAssert(wB.Close() == nil, "Close (second instance)")
		vAssert(wA.Close() == nil, "Close")
	}
	vAssert(len(sinkA.b) == len(refA) && vBytesEq(sinkA.b, refA), "output is byte-identical whether or not another writer instance is active")
	vAssert(len(sinkB.b) == len(refB) && vBytesEq(sinkB.b, refB), "the other instance's output is byte-identical too")
	vReach("end")
}
