//go:build verif

package mcap

// vMapWorkload: records whose maps have nk entries with symbolic one-byte keys and values; tpl selects the mix.
func vMapWorkload(tpl, nk int) *vWorkload {
	wl := &vWorkload{header: Header{Profile: "p", Library: "l"}}
	switch tpl {
	case 0: // one channel with a metadata map, one message
		wl.recs = []vRec{vChannelRec("c1", 1, 0, 1, nk), vMessageRec("m1", 1, 1)}
	case 1: // one metadata record
		wl.recs = []vRec{vMetadataRec("d1", 1, nk)}
	case 2: // two channels (maps), messages on both in reverse id order, metadata record
		wl.recs = []vRec{vChannelRec("c2", 2, 0, 1, nk), vChannelRec("c1", 1, 0, 1, 1), vMessageRec("m1", 2, 1), vMessageRec("m2", 1, 1), vMetadataRec("d1", 1, 2)}
	case 3: // schema + three channels with small maps + messages spread over chunks
		wl.recs = []vRec{vSchemaRec("s1", 3, 1), vChannelRec("c3", 3, 3, 1, 2), vChannelRec("c1", 1, 0, 1, 2), vChannelRec("c2", 2, 3, 1, 0),
			vMessageRec("m1", 2, 1), vMessageRec("m2", 3, 1), vMessageRec("m3", 1, 1), vMessageRec("m4", 2, 1)}
	case 4: // two schemas and two channels written in descending id order (the writer's own id->record maps), metadata map
		wl.recs = []vRec{vSchemaRec("s2", 2, 1), vSchemaRec("s1", 1, 1), vChannelRec("c2", 2, 2, 1, nk), vChannelRec("c1", 1, 1, 1, 0),
			vMessageRec("m1", 1, 1), vMessageRec("m2", 2, 1)}
	case 5: // five registered channels (descending ids), only two of them carry messages, both in one chunk
		wl.recs = []vRec{vChannelRec("c5", 5, 0, 1, 0), vChannelRec("c4", 4, 0, 1, 0), vChannelRec("c3", 3, 0, 1, nk-1), vChannelRec("c2", 2, 0, 1, 0), vChannelRec("c1", 1, 0, 1, 0),
			vMessageRec("m1", 4, 1), vMessageRec("m2", 2, 1), vMessageRec("m3", 4, 1)}
	}
	return wl
}

// C13 (decided part): the writer's output does not depend on the iteration order of any map - the maps
// passed in (channel metadata, Metadata records) and the writer's own (channels, schemas, message indexes,
// per-channel counts). The workload is written once with every `range` over a map iterating in insertion
// order (reference), then again with every `range` free to take any permutation (the engine forks over all of
// them); the two outputs must be byte-identical. Natively Go randomises map iteration itself, so the replay
// runs the free writer 64 times.
// params: tpl, nk (map entries), cfg, skip, cs
func VC13MapOrder() {
	tpl, nk, cfg, skip, cs := vParam("tpl"), vParam("nk"), vParam("cfg"), vParam("skip"), vParam("cs")
	wl := vMapWorkload(tpl, nk)
	vFreeMapOrder(false)
	_, ref := vWriteAll(wl, vOptions(cfg, skip, int64(cs)))
	rounds := 1
	if !vEngine() {
		rounds = 64
	}
	for i := 0; i < rounds; i++ {
		vFreeMapOrder(true)
		_, out := vWriteAll(wl, vOptions(cfg, skip, int64(cs)))
		vFreeMapOrder(false)
		vAssert(len(out) == len(ref), "same output length under every map iteration order")
		vAssert(vBytesEq(out, ref), "byte-identical output under every map iteration order")
	}
	vReach("end")
}
