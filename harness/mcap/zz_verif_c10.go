//go:build verif

package mcap

import (
	"bytes"
	"io"
)

// C10 family 1: every leaf parser on a buffer with symbolic length and fully symbolic bytes.
// Checked implicitly by the engine: no Go panic, no process exit, no allocation above the ceiling.
func VC10Parse() {
	which := vParam("fn")
	max := vParam("max")
	n := vSymInt("n")
	buf := vSymBytes("buf", n, max)
	switch which {
	case 0:
		_, _ = ParseHeader(buf)
	case 1:
		_, _ = ParseFooter(buf)
	case 2:
		_, _ = ParseSchema(buf)
	case 3:
		_, _ = ParseChannel(buf)
	case 4:
		_, _ = ParseMessage(buf)
	case 5:
		_, _ = ParseChunk(buf)
	case 6:
		_, _ = ParseMessageIndex(buf)
	case 7:
		_, _ = ParseChunkIndex(buf)
	case 8:
		_, _ = ParseAttachmentIndex(buf)
	case 9:
		_, _ = ParseStatistics(buf)
	case 10:
		_, _ = ParseMetadata(buf)
	case 11:
		_, _ = ParseMetadataIndex(buf)
	case 12:
		_, _ = ParseSummaryOffset(buf)
	case 13:
		_, _ = ParseDataEnd(buf)
	case 14:
		m := &Message{}
		_ = m.PopulateFrom(buf, true)
	case 15:
		ar, err := parseAttachmentReader(bytes.NewReader(buf), vSymBool("crc"))
		if err == nil {
			_, _ = io.ReadAll(ar.Data())
			_, _ = ar.ParsedCRC()
			_, _ = ar.ComputedCRC()
		}
	}
	vReach("end")
}
