//go:build verif

package mcap

import "hash/crc32"

// A layout-parametric MCAP encoder written from the specification only (shares no code with the library's
// writer). Same logical content, many legal layouts: chunk partition, per-chunk compression (none / harness xor
// codec), where schema and channel records are placed and how often they are repeated, the order of the summary
// groups, which optional parts exist, unknown records inserted at legal positions and extra bytes appended to
// extensible records. Its pad-free output is validated by the specification decoder (zz_verif_spec.go).

type eMsg struct {
	ch       uint16
	seq      uint32
	log, pub uint64
	data     []byte
}

type eContent struct {
	profile, library string
	schemas          []*Schema
	channels         []*Channel
	msgs             []eMsg
	atts             []*vAtt
	mds              []*Metadata
}

type eLayout struct {
	chunks      []int // messages per chunk, in order; nil: unchunked
	xor         []bool
	defs        int   // 0: each schema/channel right before its first use; 1: all up front at top level; 2: all repeated at the start of every chunk
	order       []int // summary group order: 0 schema, 1 channel, 2 statistics, 3 chunk index, 4 attachment index, 5 metadata index
	msgIdx      bool
	stats       bool
	sumOff      bool
	attIdx      bool
	mdIdx       bool
	chunkIdx    bool
	crc         bool
	repSchemas  bool
	repChannels bool
	attAfter    int // attachments and metadata are written after this many chunks (or messages when unchunked)
	// C11
	pad     int    // extra bytes appended to every extensible record
	padTag  string // name prefix of the symbolic pad bytes
	unkPos  int    // 0 none; 1 top level after the header; 2 start of the first chunk; 3 end of the first chunk; 4 between a chunk and its message indexes; 5 start of the summary; 6 between two summary groups; 7 after the summary offsets (before the footer); 8 right before DataEnd
	unkOp   byte
	unkBody []byte
}

type eBuf struct {
	b    []byte
	npad int
}

func (e *eBuf) u8(x byte)    { e.b = append(e.b, x) }
func (e *eBuf) u16(x uint16) { e.b = append(e.b, byte(x), byte(x>>8)) }
func (e *eBuf) u32(x uint32) { e.b = append(e.b, byte(x), byte(x>>8), byte(x>>16), byte(x>>24)) }
func (e *eBuf) u64(x uint64) {
	e.b = append(e.b, byte(x), byte(x>>8), byte(x>>16), byte(x>>24), byte(x>>32), byte(x>>40), byte(x>>48), byte(x>>56))
}
func (e *eBuf) str(s string)   { e.u32(uint32(len(s))); e.b = append(e.b, s...) }
func (e *eBuf) bytes(s []byte) { e.u32(uint32(len(s))); e.b = append(e.b, s...) }
func (e *eBuf) smap(m map[string]string) {
	// keys in sorted order (any order is legal; the readers must not care)
	var keys []string
	for k := range m {
		keys = append(keys, k)
	}
	for i := 1; i < len(keys); i++ {
		for j := i; j > 0 && keys[j] < keys[j-1]; j-- {
			keys[j], keys[j-1] = keys[j-1], keys[j]
		}
	}
	n := 0
	for _, k := range keys {
		n += 8 + len(k) + len(m[k])
	}
	e.u32(uint32(n))
	for _, k := range keys {
		e.str(k)
		e.str(m[k])
	}
}

type eEnc struct {
	out     eBuf
	l       *eLayout
	padSeq  int
	unkDone bool
}

func eExtensible(op byte) bool { return op != 0x05 && op != 0x06 && op != 0x0F && op != 0x02 }

// rec appends a record to dst; extensible records get l.pad symbolic trailing bytes.
func (x *eEnc) rec(dst *eBuf, op byte, body []byte) {
	n := len(body)
	pad := 0
	if x.l.pad > 0 && eExtensible(op) {
		pad = x.l.pad
	}
	dst.u8(op)
	dst.u64(uint64(n + pad))
	dst.b = append(dst.b, body...)
	if pad > 0 {
		x.padSeq++
		dst.b = append(dst.b, vSymBytes(vN(x.l.padTag+"pad", x.padSeq), pad, pad)...)
	}
}

func (x *eEnc) unknown(dst *eBuf, pos int) {
	if x.l.unkPos == pos && !x.unkDone {
		x.unkDone = true
		dst.u8(x.l.unkOp)
		dst.u64(uint64(len(x.l.unkBody)))
		dst.b = append(dst.b, x.l.unkBody...)
	}
}

func eSchemaBody(s *Schema) []byte {
	var e eBuf
	e.u16(s.ID)
	e.str(s.Name)
	e.str(s.Encoding)
	e.bytes(s.Data)
	return e.b
}
func eChannelBody(c *Channel) []byte {
	var e eBuf
	e.u16(c.ID)
	e.u16(c.SchemaID)
	e.str(c.Topic)
	e.str(c.MessageEncoding)
	e.smap(c.Metadata)
	return e.b
}
func eMessageBody(m *eMsg) []byte {
	var e eBuf
	e.u16(m.ch)
	e.u32(m.seq)
	e.u64(m.log)
	e.u64(m.pub)
	e.b = append(e.b, m.data...)
	return e.b
}

// eFacts: what the encoder laid out, for comparison with what Info reports.
type eChunkFact struct {
	start, length, startT, endT, idxLen, compressedN, uncompressN uint64
	comp                                                        string
	idxOff                                                      map[uint16]uint64
}
type eAttFact struct {
	off, length uint64
	a           *vAtt
}
type eMdFact struct {
	off, length uint64
	name        string
}

type eIdxEntry struct{ t, off uint64 }
type eMsgIdxFact struct {
	ch      uint16
	entries []eIdxEntry
}
type eGroupFact struct {
	op            byte
	start, length uint64
}

var eLast struct {
	chunks      []eChunkFact
	atts        []eAttFact
	mds         []eMdFact
	msgIdx      [][]eMsgIdxFact // per chunk, in file order
	chunkCRC    []uint32
	stored      [][]byte // stored (possibly compressed) records of each chunk
	groups      []eGroupFact
	sumStart    uint64
	sumOffStart uint64
	dataCRC     uint32
	sumCRC      uint32
}

// vSpecEncode lays the content out as the layout says and returns the file.
func vSpecEncode(c *eContent, l *eLayout) []byte {
	x := &eEnc{l: l}
	o := &x.out
	o.b = append(o.b, sMagic...)
	{
		var h eBuf
		h.str(c.profile)
		h.str(c.library)
		x.rec(o, 0x01, h.b)
	}
	x.unknown(o, 1)
	schemaOf := func(id uint16) *Schema {
		for _, s := range c.schemas {
			if s.ID == id {
				return s
			}
		}
		return nil
	}
	channelOf := func(id uint16) *Channel {
		for _, ch := range c.channels {
			if ch.ID == id {
				return ch
			}
		}
		return nil
	}
	defined := map[uint16]bool{}
	definedS := map[uint16]bool{}
	emitDefsFor := func(dst *eBuf, chID uint16) {
		ch := channelOf(chID)
		if ch.SchemaID != 0 && !definedS[ch.SchemaID] {
			definedS[ch.SchemaID] = true
			x.rec(dst, 0x03, eSchemaBody(schemaOf(ch.SchemaID)))
		}
		if !defined[chID] {
			defined[chID] = true
			x.rec(dst, 0x04, eChannelBody(ch))
		}
	}
	emitAllDefs := func(dst *eBuf) {
		for _, s := range c.schemas {
			x.rec(dst, 0x03, eSchemaBody(s))
			definedS[s.ID] = true
		}
		for _, ch := range c.channels {
			x.rec(dst, 0x04, eChannelBody(ch))
			defined[ch.ID] = true
		}
	}
	if l.defs == 1 {
		emitAllDefs(o)
	}
	type chunkInfo struct {
		start, length            uint64
		startT, endT             uint64
		idxOff                   map[uint16]uint64
		idxOrder                 []uint16
		idxLen                   uint64
		comp                     string
		compressedN, uncompressN uint64
	}
	var chunkInfos []chunkInfo
	var pendMsgIdx [][]eMsgIdxFact
	var pendCRC []uint32
	var pendStored [][]byte
	type attInfo struct {
		off, length uint64
		a           *vAtt
	}
	var attInfos []attInfo
	type mdInfo struct {
		off, length uint64
		name        string
	}
	var mdInfos []mdInfo
	emitAttMd := func() {
		for _, a := range c.atts {
			var e eBuf
			e.u64(a.logTime)
			e.u64(a.createTime)
			e.str(a.name)
			e.str(a.mediaType)
			e.u64(uint64(len(a.data)))
			e.b = append(e.b, a.data...)
			e.u32(crc32.ChecksumIEEE(e.b))
			start := len(o.b)
			// an attachment is extensible only before its crc field in principle; padding after the crc is what
			// "appending bytes to the end of the record" means, and the crc covers "preceding fields"
			x.rec(o, 0x09, e.b)
			attInfos = append(attInfos, attInfo{uint64(start), uint64(len(o.b) - start), a})
		}
		for _, m := range c.mds {
			var e eBuf
			e.str(m.Name)
			e.smap(m.Metadata)
			start := len(o.b)
			x.rec(o, 0x0C, e.b)
			mdInfos = append(mdInfos, mdInfo{uint64(start), uint64(len(o.b) - start), m.Name})
		}
	}
	attDone := false
	mi := 0
	if l.chunks == nil {
		for i := range c.msgs {
			if i == l.attAfter && !attDone {
				attDone = true
				emitAttMd()
			}
			emitDefsFor(o, c.msgs[i].ch)
			x.rec(o, 0x05, eMessageBody(&c.msgs[i]))
		}
	} else {
		for ci, cnt := range l.chunks {
			if ci == l.attAfter && !attDone {
				attDone = true
				emitAttMd()
			}
			var u eBuf // uncompressed chunk data
			if ci == 0 {
				x.unknown(&u, 2)
			}
			if l.defs == 2 {
				emitAllDefs(&u)
			}
			info := chunkInfo{idxOff: map[uint16]uint64{}}
			type ent struct{ t, off uint64 }
			per := map[uint16][]ent{}
			first := true
			for k := 0; k < cnt; k++ {
				m := &c.msgs[mi]
				mi++
				if l.defs == 0 {
					emitDefsFor(&u, m.ch)
				}
				if _, ok := per[m.ch]; !ok {
					info.idxOrder = append(info.idxOrder, m.ch)
				}
				per[m.ch] = append(per[m.ch], ent{m.log, uint64(len(u.b))})
				x.rec(&u, 0x05, eMessageBody(m))
				if first {
					info.startT, info.endT, first = m.log, m.log, false
				} else {
					info.startT = vIte(m.log < info.startT, m.log, info.startT)
					info.endT = vIte(m.log > info.endT, m.log, info.endT)
				}
			}
			if ci == 0 {
				x.unknown(&u, 3)
			}
			stored := u.b
			if ci < len(l.xor) && l.xor[ci] {
				info.comp = "xor"
				stored = make([]byte, len(u.b))
				for i := range u.b {
					stored[i] = u.b[i] ^ 0x5a
				}
			}
			var crc uint32
			if l.crc {
				crc = crc32.ChecksumIEEE(u.b)
			}
			var cb eBuf
			cb.u64(info.startT)
			cb.u64(info.endT)
			cb.u64(uint64(len(u.b)))
			cb.u32(crc)
			cb.str(info.comp)
			cb.u64(uint64(len(stored)))
			cb.b = append(cb.b, stored...)
			info.start = uint64(len(o.b))
			x.rec(o, 0x06, cb.b)
			info.length = uint64(len(o.b)) - info.start
			info.compressedN, info.uncompressN = uint64(len(stored)), uint64(len(u.b))
			if ci == 0 {
				x.unknown(o, 4)
			}
			idxStart := len(o.b)
			var idxFacts []eMsgIdxFact
			if l.msgIdx {
				for _, id := range info.idxOrder {
					var e eBuf
					e.u16(id)
					e.u32(uint32(16 * len(per[id])))
					f := eMsgIdxFact{ch: id}
					for _, en := range per[id] {
						e.u64(en.t)
						e.u64(en.off)
						f.entries = append(f.entries, eIdxEntry{en.t, en.off})
					}
					idxFacts = append(idxFacts, f)
					info.idxOff[id] = uint64(len(o.b))
					x.rec(o, 0x07, e.b)
				}
			} else {
				info.idxOrder = nil
			}
			info.idxLen = uint64(len(o.b) - idxStart)
			chunkInfos = append(chunkInfos, info)
			pendMsgIdx = append(pendMsgIdx, idxFacts)
			pendCRC = append(pendCRC, crc)
			pendStored = append(pendStored, stored)
		}
	}
	if !attDone {
		emitAttMd()
	}
	x.unknown(o, 8)
	var pendDataCRC, pendSumCRC uint32
	// DataEnd
	{
		var e eBuf
		var crc uint32
		if l.crc {
			crc = crc32.ChecksumIEEE(o.b)
		}
		e.u32(crc)
		pendDataCRC = crc
		x.rec(o, 0x0F, e.b)
	}
	sumStart := len(o.b)
	type grp struct {
		op            byte
		start, length uint64
	}
	var groups []grp
	x.unknown(o, 5)
	ng := 0
	for _, g := range l.order {
		gs := len(o.b)
		var op byte
		switch g {
		case 0:
			op = 0x03
			if l.repSchemas {
				for _, s := range c.schemas {
					x.rec(o, 0x03, eSchemaBody(s))
				}
			}
		case 1:
			op = 0x04
			if l.repChannels {
				for _, ch := range c.channels {
					x.rec(o, 0x04, eChannelBody(ch))
				}
			}
		case 2:
			op = 0x0B
			if l.stats {
				var e eBuf
				e.u64(uint64(len(c.msgs)))
				e.u16(uint16(len(c.schemas)))
				e.u32(uint32(len(c.channels)))
				e.u32(uint32(len(c.atts)))
				e.u32(uint32(len(c.mds)))
				e.u32(uint32(len(chunkInfos)))
				var lo, hi uint64
				for i := range c.msgs {
					t := c.msgs[i].log
					if i == 0 {
						lo, hi = t, t
					} else {
						lo = vIte(t < lo, t, lo)
						hi = vIte(t > hi, t, hi)
					}
				}
				e.u64(lo)
				e.u64(hi)
				cnt := map[uint16]uint64{}
				var ord []uint16
				for i := range c.msgs {
					if _, ok := cnt[c.msgs[i].ch]; !ok {
						ord = append(ord, c.msgs[i].ch)
					}
					cnt[c.msgs[i].ch]++
				}
				e.u32(uint32(10 * len(ord)))
				for _, id := range ord {
					e.u16(id)
					e.u64(cnt[id])
				}
				x.rec(o, 0x0B, e.b)
			}
		case 3:
			op = 0x08
			if l.chunkIdx {
				for i := range chunkInfos {
					ci := &chunkInfos[i]
					var e eBuf
					e.u64(ci.startT)
					e.u64(ci.endT)
					e.u64(ci.start)
					e.u64(ci.length)
					e.u32(uint32(10 * len(ci.idxOrder)))
					for _, id := range ci.idxOrder {
						e.u16(id)
						e.u64(ci.idxOff[id])
					}
					e.u64(ci.idxLen)
					e.str(ci.comp)
					e.u64(ci.compressedN)
					e.u64(ci.uncompressN)
					x.rec(o, 0x08, e.b)
				}
			}
		case 4:
			op = 0x0A
			if l.attIdx {
				for _, ai := range attInfos {
					var e eBuf
					e.u64(ai.off)
					e.u64(ai.length)
					e.u64(ai.a.logTime)
					e.u64(ai.a.createTime)
					e.u64(uint64(len(ai.a.data)))
					e.str(ai.a.name)
					e.str(ai.a.mediaType)
					x.rec(o, 0x0A, e.b)
				}
			}
		case 5:
			op = 0x0D
			if l.mdIdx {
				for _, m := range mdInfos {
					var e eBuf
					e.u64(m.off)
					e.u64(m.length)
					e.str(m.name)
					x.rec(o, 0x0D, e.b)
				}
			}
		}
		if len(o.b) > gs {
			groups = append(groups, grp{op, uint64(gs), uint64(len(o.b) - gs)})
			ng++
			if ng == 1 {
				x.unknown(o, 6)
			}
		}
	}
	sumOffStart := 0
	if l.sumOff && len(groups) > 0 {
		sumOffStart = len(o.b)
		for _, g := range groups {
			var e eBuf
			e.u8(g.op)
			e.u64(g.start)
			e.u64(g.length)
			x.rec(o, 0x0E, e.b)
		}
	}
	x.unknown(o, 7)
	hasSummary := len(o.b) > sumStart
	// footer
	{
		fs := len(o.b)
		o.u8(0x02)
		o.u64(20)
		if hasSummary {
			o.u64(uint64(sumStart))
		} else {
			o.u64(0)
		}
		o.u64(uint64(sumOffStart))
		var crc uint32
		if l.crc {
			crc = crc32.ChecksumIEEE(o.b[sumStart:])
		}
		_ = fs
		pendSumCRC = crc
		o.u32(crc)
	}
	o.b = append(o.b, sMagic...)
	eLast.chunks, eLast.atts, eLast.mds = nil, nil, nil
	eLast.msgIdx, eLast.chunkCRC, eLast.stored = pendMsgIdx, pendCRC, pendStored
	eLast.groups = nil
	for _, g := range groups {
		eLast.groups = append(eLast.groups, eGroupFact{g.op, g.start, g.length})
	}
	eLast.sumStart, eLast.sumOffStart = 0, uint64(sumOffStart)
	if hasSummary {
		eLast.sumStart = uint64(sumStart)
	}
	eLast.dataCRC, eLast.sumCRC = pendDataCRC, pendSumCRC
	for i := range chunkInfos {
		ci := &chunkInfos[i]
		eLast.chunks = append(eLast.chunks, eChunkFact{ci.start, ci.length, ci.startT, ci.endT, ci.idxLen, ci.compressedN, ci.uncompressN, ci.comp, ci.idxOff})
	}
	for _, ai := range attInfos {
		eLast.atts = append(eLast.atts, eAttFact{ai.off, ai.length, ai.a})
	}
	for _, m := range mdInfos {
		eLast.mds = append(eLast.mds, eMdFact{m.off, m.length, m.name})
	}
	return o.b
}

// vEncContent builds the logical content used by C11/C12: schema 1, channels 1 (schema 1) and 2 (schemaless),
// n messages alternating channels with symbolic times/sequence/data, optionally one attachment and one
// metadata record. Sequence numbers are concrete tags when tags is set (time-ordered reads are compared by tag).
func vEncContent(n int, withAtt bool, tags bool) *eContent {
	c := &eContent{profile: vStr("e_profile", 1), library: "enc"}
	c.schemas = []*Schema{{ID: 1, Name: vStr("e_s1_name", 1), Encoding: "e", Data: vSymBytes("e_s1_data", 2, 2)}}
	c.channels = []*Channel{
		{ID: 1, SchemaID: 1, Topic: "a", MessageEncoding: vStr("e_c1_menc", 1), Metadata: map[string]string{vStr("e_c1_k", 1): vStr("e_c1_v", 1)}},
		{ID: 2, SchemaID: 0, Topic: "b", MessageEncoding: "", Metadata: map[string]string{}},
	}
	for i := 0; i < n; i++ {
		m := eMsg{ch: uint16(1 + i%2), log: vSymU64(vN("e_t", i)), pub: vSymU64(vN("e_p", i)), data: vSymBytes(vN("e_d", i), 1+i%2, 1+i%2)}
		if tags {
			m.seq = uint32(i)
		} else {
			m.seq = vSymU32(vN("e_q", i))
		}
		c.msgs = append(c.msgs, m)
	}
	if withAtt {
		c.atts = []*vAtt{{logTime: vSymU64("e_a_log"), createTime: vSymU64("e_a_create"), name: vStr("e_a_name", 1), mediaType: "m", data: vSymBytes("e_a_data", 2, 2)}}
		c.mds = []*Metadata{{Name: vStr("e_md_name", 1), Metadata: map[string]string{"k": vStr("e_md_v", 1)}}}
	}
	return c
}

var ePerms = [][]int{
	{0, 1, 2, 3, 4, 5}, {1, 0, 2, 3, 4, 5}, {3, 0, 1, 2, 4, 5}, {3, 2, 1, 0, 5, 4}, {5, 4, 3, 2, 1, 0}, {2, 3, 0, 1, 4, 5},
	{4, 5, 3, 1, 0, 2}, {0, 3, 1, 4, 2, 5}, {1, 3, 0, 5, 2, 4}, {3, 1, 0, 2, 5, 4}, {2, 0, 3, 1, 5, 4}, {5, 0, 4, 1, 3, 2},
}

// vLayout decodes the concrete job parameters into a layout.
// part: chunk partition code (0 unchunked; 1 one chunk; 2 one message per chunk; 3 first chunk 1 message, rest in one;
//       4 all but last in one; 5 as 2 with an empty... ) ; xorMask: which chunks use the xor codec; defs; perm; opt mask
func vLayout(n, part, xorMask, defs, perm, opt, attAfter int) *eLayout {
	l := &eLayout{defs: defs, order: ePerms[perm%len(ePerms)], attAfter: attAfter}
	switch part {
	case 0:
		l.chunks = nil
	case 1:
		l.chunks = []int{n}
	case 2:
		for i := 0; i < n; i++ {
			l.chunks = append(l.chunks, 1)
		}
	case 3:
		l.chunks = []int{1, n - 1}
	case 4:
		l.chunks = []int{n - 1, 1}
	case 5:
		l.chunks = []int{2, n - 2}
	}
	for i := range l.chunks {
		l.xor = append(l.xor, xorMask&(1<<i) != 0)
	}
	l.msgIdx = opt&1 != 0
	l.stats = opt&2 != 0
	l.sumOff = opt&4 != 0
	l.attIdx = opt&8 != 0
	l.mdIdx = opt&16 != 0
	l.crc = opt&32 != 0
	l.repSchemas = opt&64 != 0
	l.repChannels = opt&128 != 0
	l.chunkIdx = opt&256 != 0
	return l
}
