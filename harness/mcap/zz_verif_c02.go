//go:build verif

package mcap

import (
	"io"
)

type vTriple struct {
	s *Schema
	c *Channel
	m *Message
}

// vScan reads every message with the non-indexed iterator (the reference for C02/C04).
func vScan(file []byte) []vTriple {
	r, err := NewReader(vReadOnly{vNewSource(file)})
	vAssert(err == nil, "NewReader (scan)")
	it, err := r.Messages(UsingIndex(false))
	vAssert(err == nil, "Messages(UsingIndex(false))")
	var out []vTriple
	for {
		s, c, m, err := it.NextInto(nil)
		if err != nil {
			vAssert(err == io.EOF, "scan ends with EOF")
			break
		}
		out = append(out, vTriple{s, c, m})
	}
	return out
}

func vTripleEq(a, b vTriple) bool {
	ok := vAnd(vMessageEq(a.m, b.m), vChannelEq(a.c, b.c))
	if (a.s == nil) != (b.s == nil) {
		return false
	}
	if a.s != nil {
		ok = vAnd(ok, vSchemaEq(a.s, b.s))
	}
	return ok
}

// C02: index-based access finds exactly what the sequential scan finds, or falls back, or errors.
// params: tpl, ln, pn, cfg, skip (-1: all Skip* flags symbolic), cs, ord (0 default options, 1 FileOrder, 2 LogTime, 3 Reverse)
func VC02Index() {
	tpl, ln, pn := vParam("tpl"), vParam("ln"), vParam("pn")
	cfg, skip, cs, ord := vParam("cfg"), vParam("skip"), vParam("cs"), vParam("ord")
	wl := vMakeWorkload(tpl, ln, pn, vParam("idv")) // idv=1: ids 65535 and 0
	vExcludeKnownTimes(wl)
	opts := vOptions(cfg, skip, int64(cs))
	w, file := vWriteAll(wl, opts)
	scan := vScan(file)

	r, err := NewReader(vNewSource(file))
	vAssert(err == nil, "NewReader")
	var ropts []ReadOpt
	switch ord {
	case 1:
		ropts = append(ropts, InOrder(FileOrder))
	case 2:
		ropts = append(ropts, InOrder(LogTimeOrder))
	case 3:
		ropts = append(ropts, InOrder(ReverseLogTimeOrder))
	}
	var cbMeta []*Metadata
	ropts = append(ropts, WithMetadataCallback(func(md *Metadata) error {
		cbMeta = append(cbMeta, md)
		return nil
	}))
	it, err := r.Messages(ropts...)
	if err != nil {
		vReach("refused") // "fails with an error"
	} else {
		var got []vTriple
		failed := false
		for {
			s, c, m, err := it.NextInto(nil)
			if err != nil {
				if err != io.EOF {
					failed = true
				}
				break
			}
			got = append(got, vTriple{s, c, m})
		}
		if failed {
			vReach("errored")
		} else {
			vAssert(len(got) == len(scan), "indexed read returns as many messages as the scan (or errors)")
			if ord <= 1 {
				for i := range got {
					if i < len(scan) {
						vAssert(vTripleEq(got[i], scan[i]), "indexed file-order read equals the scan element-wise")
					}
				}
			} else {
				// the time-ordered read returns the same multiset as the scan: necessary conditions that need no matching
				// (sums of log times, publish times, sequence numbers and payload bytes agree)
				var gl, gp, gs, gd, sl, sp, ss, sd uint64
				for i := range got {
					gl, gp, gs = gl+got[i].m.LogTime, gp+got[i].m.PublishTime, gs+uint64(got[i].m.Sequence)
					for _, b := range got[i].m.Data {
						gd += uint64(b)
					}
				}
				for i := range scan {
					sl, sp, ss = sl+scan[i].m.LogTime, sp+scan[i].m.PublishTime, ss+uint64(scan[i].m.Sequence)
					for _, b := range scan[i].m.Data {
						sd += uint64(b)
					}
				}
				vAssert(vAnd(vAnd(gl == sl, gp == sp), vAnd(gs == ss, gd == sd)), "time-ordered indexed read returns the scan's messages (field sums agree)")
				for i := 1; i < len(got); i++ {
					if ord == 2 {
						vAssert(got[i].m.LogTime >= got[i-1].m.LogTime, "log-time order")
					} else {
						vAssert(got[i].m.LogTime <= got[i-1].m.LogTime, "reverse log-time order")
					}
				}
			}
			// metadata callback: during an index-based read every indexed metadata record; during a fallback scan every one
			if info, ierr := r.Info(); ierr == nil {
				if info.CanReadMessagesUsingIndex() {
					vAssert(len(cbMeta) == len(info.MetadataIndexes), "metadata callback saw every indexed metadata record")
				}
			}
			vReach("read")
		}
	}

	// random access through index entries
	r2, err := NewReader(vNewSource(file))
	vAssert(err == nil, "NewReader 2")
	info, err := r2.Info()
	if err == nil {
		if !opts.SkipAttachmentIndex {
			na := 0
			for i := range wl.recs {
				if wl.recs[i].kind == vKAttachment {
					na++
				}
			}
			vAssert(len(info.AttachmentIndexes) == na, "every attachment has an index entry")
		}
		ai := 0
		for i := range wl.recs {
			if wl.recs[i].kind != vKAttachment || ai >= len(info.AttachmentIndexes) {
				continue
			}
			idx := info.AttachmentIndexes[ai]
			ai++
			a := wl.recs[i].att
			ar, err := r2.GetAttachmentReader(idx.Offset)
			vAssert(err == nil, "GetAttachmentReader")
			d, err := io.ReadAll(ar.Data())
			vAssert(err == nil, "attachment data via index")
			vAssert(vAnd(vAnd(ar.LogTime == a.logTime, ar.CreateTime == a.createTime), vAnd(vStrEq(ar.Name, a.name), vStrEq(ar.MediaType, a.mediaType))), "attachment fields via index")
			vAssert(vBytesEq(d, a.data), "attachment data via index equal")
			p, err1 := ar.ParsedCRC()
			c, err2 := ar.ComputedCRC()
			vAssert(err1 == nil && err2 == nil && p == c, "attachment crc via index")
			vAssert(vAnd(vAnd(idx.LogTime == a.logTime, idx.CreateTime == a.createTime), vAnd(vStrEq(idx.Name, a.name), vAnd(vStrEq(idx.MediaType, a.mediaType), idx.DataSize == uint64(len(a.data))))), "attachment index fields")
		}
		if !opts.SkipMetadataIndex {
			nm := 0
			for i := range wl.recs {
				if wl.recs[i].kind == vKMetadata {
					nm++
				}
			}
			vAssert(len(info.MetadataIndexes) == nm, "every metadata record has an index entry")
		}
		mi := 0
		for i := range wl.recs {
			if wl.recs[i].kind != vKMetadata || mi >= len(info.MetadataIndexes) {
				continue
			}
			idx := info.MetadataIndexes[mi]
			mi++
			md, err := r2.GetMetadata(idx.Offset)
			vAssert(err == nil, "GetMetadata")
			vAssert(vAnd(vStrEq(md.Name, wl.recs[i].md.Name), vMapEq(md.Metadata, wl.recs[i].md.Metadata)), "metadata via index equal")
			vAssert(vStrEq(idx.Name, wl.recs[i].md.Name), "metadata index name")
		}
	}
	_ = w
	vReach("end")
}
