//go:build verif

package mcap

import (
	"io"
)

// vAggregates: the true aggregates of a workload, computed from the harness's own inputs.
type vAgg struct {
	messages, schemas, channels, attachments, metadata uint64
	perChannel                                          map[uint16]uint64
	minT, maxT                                          uint64
	channelIDs, schemaIDs                               []uint16
}

func vAggregate(wl *vWorkload) *vAgg {
	a := &vAgg{perChannel: map[uint16]uint64{}}
	seenS := map[uint16]bool{}
	seenC := map[uint16]bool{}
	first := true
	for i := range wl.recs {
		r := &wl.recs[i]
		switch r.kind {
		case vKSchema:
			if !seenS[r.schema.ID] {
				seenS[r.schema.ID] = true
				a.schemas++
				a.schemaIDs = append(a.schemaIDs, r.schema.ID)
			}
		case vKChannel:
			if !seenC[r.channel.ID] {
				seenC[r.channel.ID] = true
				a.channels++
				a.channelIDs = append(a.channelIDs, r.channel.ID)
			}
		case vKMessage:
			a.messages++
			a.perChannel[r.msg.ChannelID]++
			t := r.msg.LogTime
			if first {
				a.minT, a.maxT = t, t
				first = false
			} else {
				a.minT = vIte(t < a.minT, t, a.minT)
				a.maxT = vIte(t > a.maxT, t, a.maxT)
			}
		case vKAttachment:
			a.attachments++
		case vKMetadata:
			a.metadata++
		}
	}
	return a
}

// vCountChunks lexes the file with chunk emission and counts chunk records (the oracle for chunk counts).
func vCountChunks(file []byte, skipMagic bool) int {
	lex, err := NewLexer(vNewSource(file), &LexerOptions{EmitChunks: true, SkipMagic: skipMagic})
	vAssert(err == nil, "NewLexer (chunk count)")
	n := 0
	for {
		tok, _, err := lex.Next(nil)
		if err != nil {
			break
		}
		if tok == TokenChunk {
			n++
		}
	}
	return n
}

func vStatsEq(s *Statistics, a *vAgg, chunks int, label string) {
	vAssert(s.MessageCount == a.messages, label+": message count")
	vAssert(uint64(s.SchemaCount) == a.schemas, label+": schema count")
	vAssert(uint64(s.ChannelCount) == a.channels, label+": channel count")
	vAssert(uint64(s.AttachmentCount) == a.attachments, label+": attachment count")
	vAssert(uint64(s.MetadataCount) == a.metadata, label+": metadata count")
	vAssert(uint64(s.ChunkCount) == uint64(chunks), label+": chunk count")
	vAssert(s.MessageStartTime == a.minT, label+": earliest message time")
	vAssert(s.MessageEndTime == a.maxT, label+": latest message time")
	for id, n := range a.perChannel {
		vAssert(s.ChannelMessageCounts[id] == n, label+": per-channel message count")
	}
	for id, n := range s.ChannelMessageCounts {
		vAssert(a.perChannel[id] == n, label+": no extra per-channel count")
	}
}

// C08: statistics and Info describe exactly the recorded content.
// params: tpl, ln, pn, cfg, skip, cs  (as C01); tpl 8/9 are the multi-chunk templates of C03 (n, per)
func VC08Stats() {
	tpl, ln, pn := vParam("tpl"), vParam("ln"), vParam("pn")
	cfg, skip, cs := vParam("cfg"), vParam("skip"), vParam("cs")
	wl := vMakeWorkload(tpl, ln, pn, vParam("idv")) // idv=1: schema/channel ids 65535 and 0
	opts := vOptions(cfg, skip, int64(cs))
	w, file := vWriteAll(wl, opts)
	agg := vAggregate(wl)
	chunks := vCountChunks(file, opts.SkipMagic)
	if !opts.Chunked {
		vAssert(chunks == 0, "no chunks in an unchunked file")
	}

	// (1) the writer's public accumulator
	vStatsEq(w.Statistics, agg, chunks, "Writer.Statistics")

	// (2) the statistics record in the file
	lex, err := NewLexer(vNewSource(file), &LexerOptions{SkipMagic: opts.SkipMagic})
	vAssert(err == nil, "NewLexer")
	nStats := 0
	for {
		tok, rec, err := lex.Next(nil)
		if err != nil {
			vAssert(err == io.EOF, "lexer ends with EOF")
			break
		}
		if tok == TokenStatistics {
			s, err := ParseStatistics(rec)
			vAssert(err == nil, "statistics record parses")
			vStatsEq(s, agg, chunks, "statistics record")
			nStats++
		}
	}
	if opts.SkipStatistics {
		vAssert(nStats == 0, "no statistics record when skipped")
	} else {
		vAssert(nStats == 1, "exactly one statistics record")
	}
	vReach("record")
	if opts.SkipMagic {
		vReach("end")
		return
	}

	// (3) Info
	r, err := NewReader(vNewSource(file))
	vAssert(err == nil, "NewReader")
	info, err := r.Info()
	vAssert(err == nil, "Info succeeds on a written file")
	if !opts.SkipStatistics {
		vAssert(info.Statistics != nil, "Info carries the statistics")
		vStatsEq(info.Statistics, agg, chunks, "Info.Statistics")
	}
	if !opts.SkipRepeatedChannelInfos {
		vAssert(len(info.Channels) == len(agg.channelIDs), "Info lists every channel")
		for i := range wl.recs {
			if wl.recs[i].kind == vKChannel {
				c := info.Channels[wl.recs[i].channel.ID]
				vAssert(c != nil, "Info lists the channel")
			}
		}
		// the first definition of each channel id is what the summary repeats
		seen := map[uint16]bool{}
		for i := range wl.recs {
			if wl.recs[i].kind == vKChannel && !seen[wl.recs[i].channel.ID] {
				seen[wl.recs[i].channel.ID] = true
				vAssert(vChannelEq(info.Channels[wl.recs[i].channel.ID], wl.recs[i].channel), "Info channel content")
			}
		}
	}
	if !opts.SkipRepeatedSchemas {
		vAssert(len(info.Schemas) == len(agg.schemaIDs), "Info lists every schema")
		seen := map[uint16]bool{}
		for i := range wl.recs {
			if wl.recs[i].kind == vKSchema && !seen[wl.recs[i].schema.ID] {
				seen[wl.recs[i].schema.ID] = true
				s := info.Schemas[wl.recs[i].schema.ID]
				vAssert(s != nil && vSchemaEq(s, wl.recs[i].schema), "Info schema content")
			}
		}
	}
	if !opts.SkipChunkIndex {
		vAssert(len(info.ChunkIndexes) == chunks, "Info lists every chunk")
	}
	if !opts.SkipAttachmentIndex {
		vAssert(uint64(len(info.AttachmentIndexes)) == agg.attachments, "Info lists every attachment index")
	}
	if !opts.SkipMetadataIndex {
		vAssert(uint64(len(info.MetadataIndexes)) == agg.metadata, "Info lists every metadata index")
	}
	vReach("end")
}

// C08 on multi-chunk files with fully symbolic times (reuses the C03 writer): n messages, per per chunk,
// plus (variant) a trailing chunk that holds only a channel record.
func VC08StatsChunks() {
	n, per, tail := vParam("n"), vParam("per"), vParam("tail")
	opts := vOptions(1|2, vParam("skip"), int64(32*per-1))
	sink := &vSink{failAt: -1}
	w, err := NewWriter(sink, opts)
	vAssert(err == nil, "NewWriter")
	vAssert(w.WriteHeader(&Header{}) == nil, "header")
	vAssert(w.WriteChannel(&Channel{ID: 1, Topic: "a"}) == nil, "channel a")
	wl := &vWorkload{}
	wl.recs = append(wl.recs, vRec{kind: vKChannel, channel: &Channel{ID: 1, Topic: "a"}})
	for i := 0; i < n; i++ {
		m := &Message{ChannelID: 1, Sequence: uint32(i), LogTime: vSymU64(vN("t", i)), Data: vSymBytes(vN("d", i), 1, 1)}
		vAssert(w.WriteMessage(m) == nil, "message")
		wl.recs = append(wl.recs, vRec{kind: vKMessage, msg: m})
	}
	if tail == 1 {
		// a channel record after the last message chunk was flushed: the final chunk holds no message
		c := &Channel{ID: 2, Topic: "b"}
		vAssert(w.WriteChannel(c) == nil, "channel b")
		wl.recs = append(wl.recs, vRec{kind: vKChannel, channel: c})
	}
	vAssert(w.Close() == nil, "close")
	agg := vAggregate(wl)
	chunks := vCountChunks(sink.b, false)
	vStatsEq(w.Statistics, agg, chunks, "Writer.Statistics")
	r, err := NewReader(vNewSource(sink.b))
	vAssert(err == nil, "NewReader")
	info, err := r.Info()
	vAssert(err == nil, "Info")
	if !opts.SkipStatistics {
		vStatsEq(info.Statistics, agg, chunks, "Info.Statistics")
	}
	if !opts.SkipChunkIndex {
		vAssert(len(info.ChunkIndexes) == chunks, "Info lists every chunk")
		// each chunk index states the true time range of its chunk
		mi := 0
		for ci, idx := range info.ChunkIndexes {
			cnt := per
			if mi+cnt > n {
				cnt = n - mi
			}
			if ci == len(info.ChunkIndexes)-1 && tail == 1 && n%per == 0 {
				cnt = 0
			}
			if cnt == 0 {
				vAssert(idx.MessageStartTime == 0 && idx.MessageEndTime == 0, "empty chunk has zero times")
				continue
			}
			lo, hi := wl.recs[1+mi].msg.LogTime, wl.recs[1+mi].msg.LogTime
			for k := 1; k < cnt; k++ {
				t := wl.recs[1+mi+k].msg.LogTime
				lo = vIte(t < lo, t, lo)
				hi = vIte(t > hi, t, hi)
			}
			vAssert(idx.MessageStartTime == lo, "chunk index start time")
			vAssert(idx.MessageEndTime == hi, "chunk index end time")
			mi += cnt
		}
	}
	vReach("end")
}
