//go:build verif

package mcap

import (
	"errors"
	"io"
)

// C07, chunk half: every byte of one chunk's stored payload is replaced by a fresh symbolic byte (assumed not
// all equal to the original), so one run covers every bit flip, overwrite and same-length swap inside that
// payload. A validating lexer must not return any record of the damaged chunk (nor anything after it) as good:
// it returns the records before the chunk unchanged and then reports an error (or an invalid-chunk token when
// so configured).
// Assumptions (part of the claim): the checksum distinguishes the altered payload from the original (ideal
// CRC: equality of two CRCs <=> equality of the bytes fed); the stored chunk CRC is non-zero (zero means "not
// available" and disables validation by specification).
// params: tpl, cfg (bit 4: xor codec), cs, chunk (index of the damaged chunk)
func VC07Chunk() {
	vIdealCRC()
	tpl, cfg, cs, which := vParam("tpl"), vParam("cfg"), vParam("cs"), vParam("chunk")
	wl := vMakeWorkload(tpl, 1, 2, 0)
	opts := vOptions(cfg|1|2, 0, int64(cs))
	w, file := vWriteAll(wl, opts)
	if which >= len(w.ChunkIndexes) {
		vReach("end")
		return
	}
	ci := w.ChunkIndexes[which]
	hdr := int(ci.ChunkStartOffset) + 9
	stored, _, err := getUint32(file, hdr+24)
	vAssert(err == nil, "chunk header readable")
	vAssume(stored != 0)
	pay := hdr + 8 + 8 + 8 + 4 + 4 + len(ci.Compression) + 8
	n := int(ci.CompressedSize)
	vAssert(pay+n == int(ci.ChunkStartOffset+ci.ChunkLength), "payload is the tail of the chunk record")
	h := vSymBytes("havoc", n, n)
	vAssume(!vBytesEq(h, file[pay:pay+n]))
	bad := append([]byte(nil), file...)
	copy(bad[pay:pay+n], h)

	emitInvalid := vSymBool("emitInvalid")
	lopts := &LexerOptions{ValidateChunkCRCs: true, Decompressors: vDecompressors(cfg)}
	ref, rerr := vLexEvents(vNewSource(file), lopts)
	vAssert(rerr == io.EOF, "the intact file lexes to EOF")
	// index of the first event that comes from the damaged chunk (validating lexer: position after any event of
	// a chunk is the chunk's end)
	first := len(ref)
	cend := int64(ci.ChunkStartOffset + ci.ChunkLength)
	for i := len(ref) - 1; i >= 0; i-- {
		if ref[i].pos >= cend {
			first = i
		}
	}
	lopts2 := &LexerOptions{ValidateChunkCRCs: true, EmitInvalidChunks: emitInvalid, Decompressors: vDecompressors(cfg)}
	got, terr := vLexEvents(vNewSource(bad), lopts2)
	ttok := vLexLastTok
	vAssert(len(got) <= first, "no record of the damaged chunk, and nothing after it, is returned as good data")
	vEventsPrefix(got, ref, false, "before the damage")
	vAssert(len(got) == first, "records before the damaged chunk are all returned")
	vAssert(terr != nil && terr != io.EOF && !errors.Is(terr, io.EOF), "the damage is reported as an error, not as end-of-file")
	if emitInvalid {
		var ic *errInvalidChunkCrc
		if errors.As(terr, &ic) {
			vAssert(ttok == TokenInvalidChunk, "CRC mismatch surfaces as an invalid-chunk token when so configured")
			vReach("invalid-chunk-token")
			// a caller may go on lexing after the invalid-chunk token: nothing of the damaged chunk may then be served -
			// what follows is what follows the damaged chunk in the intact file
			lastOfChunk := first
			for i := first; i < len(ref); i++ {
				if ref[i].pos <= cend {
					lastOfChunk = i + 1
				}
			}
			rest, _ := vLexEventsFrom(vLexLastLexer, vLexLastSource)
			vEventsPrefix(rest, ref[lastOfChunk:], false, "after the invalid-chunk token")
		}
	} else {
		vAssert(ttok == TokenError, "error token")
	}
	vReach("end")
}

// C07, attachment half: the CRC-covered bytes of an attachment (times, name, media type, data; lengths kept)
// are replaced by fresh symbolic bytes, assumed different: the callback sees ComputedCRC != ParsedCRC, or an
// error surfaces.
// params: ln (name/media length), dn (data length), cfg, part (0 all covered value bytes, 1 data only, 2 name only, 3 times only)
func VC07Attachment() {
	vIdealCRC()
	ln, dn, cfg, part := vParam("ln"), vParam("dn"), vParam("cfg"), vParam("part")
	sink := &vSink{failAt: -1}
	w, err := NewWriter(sink, vOptions(cfg, 0, 1000))
	vAssert(err == nil, "NewWriter")
	vAssert(w.WriteHeader(&Header{}) == nil, "header")
	a := vAttachmentRec("a1", ln, dn)
	vAssert(vWriteRec(w, &a) == nil, "attachment written")
	vAssert(w.Close() == nil, "close")
	file := sink.b
	off := int(w.AttachmentIndexes[0].Offset) + 9
	bad := append([]byte(nil), file...)
	// layout after the 9-byte prefix: log(8) create(8) nameLen(4) name(ln) mtLen(4) mt(ln) dataSize(8) data(dn) crc(4)
	type span struct{ o, n int }
	var spans []span
	switch part {
	case 0:
		spans = []span{{off, 16}, {off + 20, ln}, {off + 24 + ln, ln}, {off + 32 + 2*ln, dn}}
	case 1:
		spans = []span{{off + 32 + 2*ln, dn}}
	case 2:
		spans = []span{{off + 20, ln}}
	case 3:
		spans = []span{{off, 16}}
	}
	diff := false
	for i, sp := range spans {
		if sp.n == 0 {
			continue
		}
		h := vSymBytes(vN("havoc", i), sp.n, sp.n)
		diff = vOr(diff, !vBytesEq(h, file[sp.o:sp.o+sp.n]))
		copy(bad[sp.o:sp.o+sp.n], h)
	}
	vAssume(diff)
	called := false
	lex, err := NewLexer(vNewSource(bad), &LexerOptions{ComputeAttachmentCRCs: true, AttachmentCallback: func(ar *AttachmentReader) error {
		called = true
		_, err := io.ReadAll(ar.Data())
		vAssert(err == nil, "attachment data readable")
		p, err1 := ar.ParsedCRC()
		c, err2 := ar.ComputedCRC()
		if err1 == nil && err2 == nil {
			vAssert(p != c, "an altered attachment is exposed by computed != stored CRC")
			vReach("mismatch-seen")
		}
		return nil
	}})
	vAssert(err == nil, "NewLexer")
	for {
		_, _, err := lex.Next(nil)
		if err != nil {
			break
		}
	}
	vAssert(called, "the attachment callback ran")
	vReach("end")
}
