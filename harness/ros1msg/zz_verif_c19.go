//go:build verif

package ros1msg

// C19 (decided part): the array-suffix kernel parseArrayType on every string up to max bytes (bytes and length
// symbolic): never panics, and computes what its specification says:
//   no '[' or no ']' in s                          -> (false, "", 0)
//   l = first '[', r = first ']'; r < l             -> not an array (false, "", 0)
//   size = s[l+1:r] empty                           -> (true, s[:l], 0)
//   size a decimal integer that Atoi accepts         -> (true, s[:l], value)
//   otherwise                                       -> (false, "", 0)
// params: max
func VC19ArrayType() {
	max := vParam("max")
	n := vSymInt("n")
	b := vSymBytes("s", n, max)
	s := string(b)
	isArr, base, size := parseArrayType(s)
	// reference: positions of the first brackets, computed independently
	l, r := -1, -1
	for i := 0; i < len(b); i++ {
		if l < 0 && vFork(b[i] == '[') {
			l = i
		}
		if r < 0 && vFork(b[i] == ']') {
			r = i
		}
	}
	if l < 0 || r < 0 || r < l {
		vAssert(!isArr && base == "" && size == 0, "not an array suffix: (false, \"\", 0)")
		vReach("not-array")
	} else if r == l+1 {
		vAssert(isArr && size == 0 && vStrEq(base, s[:l]), "empty brackets: variable-length array of the base type")
		vReach("variable-array")
	} else {
		// digits only (optionally signed, as strconv.Atoi accepts) -> fixed size
		allDigits := true
		val := 0
		for i := l + 1; i < r; i++ {
			if vFork(b[i] >= '0' && b[i] <= '9') {
				val = val*10 + int(b[i]-'0')
			} else {
				allDigits = false
			}
		}
		if allDigits {
			vAssert(isArr && size == val && vStrEq(base, s[:l]), "decimal size: fixed-length array of the base type")
			vReach("fixed-array")
		} else if isArr {
			// Atoi also accepts a sign and underscores are rejected: whatever it accepted, base must be s[:l]
			vAssert(vStrEq(base, s[:l]), "array base type is the text before the first '['")
		} else {
			vAssert(base == "" && size == 0, "rejected size: (false, \"\", 0)")
		}
	}
	vReach("end")
}

// ---------- the resolver on generated definitions ----------

// vTypeMenu: field types a section may use. Index 0.. ; A and B are the two dependent message types of package p.
// 11..13 (pkgs=1 jobs): a second package q with its own A (different from p/A) and a type D whose field is the
// unqualified A, which inside package q means q/A.
var vTypeMenu = []string{"int32", "A", "B", "p/A", "p/B", "Header", "A[]", "B[2]", "string[3]", "q/C", "p/B[]", "q/D", "q/A", "q/D[]"}

// vPkgsSub: the sub-menu used by pkgs=1 jobs
var vPkgsSub = []int{0, 1, 2, 3, 6, 11, 12, 13}

func vQA() []Field { return []Field{{Name: "qa", Type: Type{BaseType: "string"}}} }
func vQD() []Field {
	return []Field{{Name: "d", Type: Type{BaseType: "A", IsRecord: true, Fields: vQA()}}}
}

type vExp struct {
	err    bool
	fields []Field
}

// vExpect is an independent resolver for the generated shape: root, A, B each hold one field "f" of a menu type.
// Returns err=true when resolution must fail: unknown type q/C, or a reference cycle (infinite tree).
func vExpectFields(sel []int, which int, onPath []bool) ([]Field, bool) {
	// which: 0 root, 1 A, 2 B, 3 Header
	if which == 3 {
		return []Field{{Name: "seq", Type: Type{BaseType: "uint32"}}}, false
	}
	if onPath[which] {
		return nil, true // cycle
	}
	onPath[which] = true
	defer func() { onPath[which] = false }()
	name := []string{"r", "a", "b"}[which]
	ft := vTypeMenu[sel[which]]
	var base string
	isArr, fixed := false, 0
	switch ft {
	case "A[]":
		base, isArr = "A", true
	case "B[2]":
		base, isArr, fixed = "B", true, 2
	case "string[3]":
		base, isArr, fixed = "string", true, 3
	case "p/B[]":
		base, isArr = "p/B", true
	case "q/D[]":
		base, isArr = "q/D", true
	default:
		base = ft
	}
	var sub []Field
	isRec := false
	switch base {
	case "int32", "string":
	case "A", "p/A":
		f, err := vExpectFields(sel, 1, onPath)
		if err {
			return nil, true
		}
		sub, isRec = f, true
	case "B", "p/B":
		f, err := vExpectFields(sel, 2, onPath)
		if err {
			return nil, true
		}
		sub, isRec = f, true
	case "Header":
		f, _ := vExpectFields(sel, 3, onPath)
		sub, isRec = f, true
	case "q/A":
		sub, isRec = vQA(), true
	case "q/D":
		sub, isRec = vQD(), true
	default:
		return nil, true // q/C: dependency not found
	}
	if isArr {
		return []Field{{Name: name, Type: Type{BaseType: ft, IsArray: true, FixedSize: fixed, Items: &Type{BaseType: base, IsRecord: isRec, Fields: sub}}}}, false
	}
	return []Field{{Name: name, Type: Type{BaseType: ft, IsRecord: isRec, Fields: sub}}}, false
}

func vFieldsEq(a, b []Field) bool {
	if len(a) != len(b) {
		return false
	}
	for i := range a {
		if a[i].Name != b[i].Name || !vTypeEq(&a[i].Type, &b[i].Type) {
			return false
		}
	}
	return true
}
func vTypeEq(a, b *Type) bool {
	if a.BaseType != b.BaseType || a.IsArray != b.IsArray || a.FixedSize != b.FixedSize || a.IsRecord != b.IsRecord {
		return false
	}
	if (a.Items == nil) != (b.Items == nil) {
		return false
	}
	if a.Items != nil && !vTypeEq(a.Items, b.Items) {
		return false
	}
	return vFieldsEq(a.Fields, b.Fields)
}

// C19 (resolver): for every choice of the field types of a root definition and two dependent types (a symbolic
// selector each, case-split by the solver into concrete texts), ParseMessageDefinition returns the expected tree,
// or an error when a type is missing or the references form a cycle - it never recurses without bound (the engine
// reports recursion beyond its unwinding bound, natively a stack overflow that kills the process).
// params: k (menu size used), comments (1: interleave comment, constant and blank lines), twice (1: the root field type is used twice)
func VC19Resolve() {
	k := vParam("k")
	pkgs := vParam("pkgs") == 1
	sel := make([]int, 3)
	for i := range sel {
		s := vSymInt(vN("sel", i))
		vAssume(vAnd(s >= 0, s < k))
		sel[i] = vConcretize(s, k)
		if pkgs {
			sel[i] = vPkgsSub[sel[i]]
		}
	}
	extra := ""
	if vParam("comments") == 1 {
		extra = "# a comment\n\nint32 CONST=1 # constant\n  \n"
	}
	// twice=1: the root uses its field type a second time (field "r2"): a repeated use of one nested type is not a cycle
	second := ""
	if vParam("twice") == 1 {
		second = vTypeMenu[sel[0]] + " \t r2 # again = same type\n" // (space and tab; the reference tools split on spaces)
	}
	// pkgs=1: the root also has a field of type q/D before and after its selected field, and package q is defined:
	// the same unqualified name A then means p/A in one place and q/A in another
	z1, z2, qsecs := "", "", ""
	if pkgs {
		z1, z2 = "q/D z1\n", "q/D[] z2\n"
		qsecs = "================================================================================\nMSG: q/D\nA d\n" +
			"================================================================================\nMSG: q/A\nstring qa\n"
	}
	text := extra + z1 + vTypeMenu[sel[0]] + " r\n" + second + z2 +
		"================================================================================\nMSG: p/A\n" + extra + vTypeMenu[sel[1]] + "   a # trailing comment, with an = sign\n" +
		"================================================================================\nMSG: p/B\n" + vTypeMenu[sel[2]] + " b\n" +
		"================================================================================\nMSG: std_msgs/Header\nuint32 seq\n" + qsecs
	exp, expErr := vExpectFields(sel, 0, make([]bool, 4))
	if !expErr && vParam("twice") == 1 {
		f2 := exp[0]
		f2.Name = "r2"
		exp = append(exp, f2)
	}
	if !expErr && pkgs {
		e := []Field{{Name: "z1", Type: Type{BaseType: "q/D", IsRecord: true, Fields: vQD()}}}
		e = append(e, exp...)
		exp = append(e, Field{Name: "z2", Type: Type{BaseType: "q/D[]", IsArray: true, Items: &Type{BaseType: "q/D", IsRecord: true, Fields: vQD()}}})
	}
	got, err := ParseMessageDefinition("p", []byte(text))
	if expErr {
		vAssert(err != nil, "a missing type or a reference cycle is reported as an error")
		vReach("error-expected")
	} else {
		vAssert(err == nil, "a resolvable definition parses")
		vAssert(vFieldsEq(got, exp), "the field tree is the one the definition describes")
		vReach("tree-checked")
	}
	vReach("end")
}
