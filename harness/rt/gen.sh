#!/bin/sh
# regenerate the per-package copies of the harness runtime
set -e
cd "$(dirname "$0")"
for m in mcap ros ros1msg; do
  sed "s/PKGNAME/$m/" zz_verif_rt.go.tmpl > ../$m/zz_verif_rt.go
  sed "s/PKGNAME/$m/" zz_verif_replay_test.go.tmpl > ../$m/zz_verif_replay_test.go
done
