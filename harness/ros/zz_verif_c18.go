//go:build verif

package ros

import (
	"bytes"
	"io"

	"github.com/foxglove/mcap/go/mcap"
)

// ---------- a ROS 1 bag encoder written from the bag v2.0 format description ----------

type bBuf struct{ b []byte }

func (e *bBuf) u32(x uint32) { e.b = append(e.b, byte(x), byte(x>>8), byte(x>>16), byte(x>>24)) }
func (e *bBuf) field(name string, val []byte) {
	e.u32(uint32(len(name) + 1 + len(val)))
	e.b = append(e.b, name...)
	e.b = append(e.b, '=')
	e.b = append(e.b, val...)
}
func bRecord(dst *bBuf, header, data []byte) {
	dst.u32(uint32(len(header)))
	dst.b = append(dst.b, header...)
	dst.u32(uint32(len(data)))
	dst.b = append(dst.b, data...)
}
func bU32(x uint32) []byte { return []byte{byte(x), byte(x >> 8), byte(x >> 16), byte(x >> 24)} }

type bConn struct {
	id                       uint32
	topic, typ, md5, def, cid []byte
	dtopic                    []byte // the "topic" field of the connection data (the publisher's original topic); nil: same as topic
}

func (c *bConn) dataTopic() []byte {
	if c.dtopic != nil {
		return c.dtopic
	}
	return c.topic
}
type bMsg struct {
	conn        uint32
	secs, nsecs uint32
	data        []byte
}

func bConnRecord(dst *bBuf, c *bConn) {
	var h, d bBuf
	h.field("op", []byte{OpBagConnection})
	h.field("conn", bU32(c.id))
	h.field("topic", c.topic)
	d.field("topic", c.dataTopic())
	d.field("type", c.typ)
	d.field("md5sum", c.md5)
	d.field("message_definition", c.def)
	if c.cid != nil {
		d.field("callerid", c.cid)
	}
	bRecord(dst, h.b, d.b)
}
func bMsgRecord(dst *bBuf, m *bMsg) {
	var h bBuf
	h.field("op", []byte{OpBagMessageData})
	h.field("conn", bU32(m.conn))
	h.field("time", append(bU32(m.secs), bU32(m.nsecs)...))
	bRecord(dst, h.b, m.data)
}

type vSinkR struct{ b []byte }

func (s *vSinkR) Write(p []byte) (int, error) { s.b = append(s.b, p...); return len(p), nil }

// vBag builds a bag: magic, bag header record, then connections and messages either at top level or inside one
// uncompressed chunk (chunked=1), followed by an index-data and a chunk-info record (which a converter skips).
func vBag(conns []*bConn, msgs []*bMsg, order []int, chunked bool) []byte {
	var out bBuf
	out.b = append(out.b, BagMagic...)
	{
		var h bBuf
		h.field("op", []byte{OpBagHeader})
		h.field("index_pos", []byte{0, 0, 0, 0, 0, 0, 0, 0})
		h.field("conn_count", bU32(uint32(len(conns))))
		h.field("chunk_count", bU32(0))
		bRecord(&out, h.b, []byte{' ', ' ', ' '})
	}
	var body bBuf
	// order: >=0 connection index, <0 message index -(i+1)
	for _, o := range order {
		if o >= 0 {
			bConnRecord(&body, conns[o])
		} else {
			bMsgRecord(&body, msgs[-o-1])
		}
	}
	if chunked {
		var h bBuf
		h.field("op", []byte{OpBagChunk})
		h.field("compression", []byte("none"))
		h.field("size", bU32(uint32(len(body.b))))
		bRecord(&out, h.b, body.b)
		var ih bBuf
		ih.field("op", []byte{OpBagIndexData})
		ih.field("ver", bU32(1))
		bRecord(&out, ih.b, []byte{1, 2, 3, 4})
		var ch bBuf
		ch.field("op", []byte{OpBagChunkInfo})
		bRecord(&out, ch.b, nil)
	} else {
		out.b = append(out.b, body.b...)
	}
	return out.b
}

// C18 (ROS 1 bag half, functional): one MCAP message per bag message, in bag order, same bytes, log = publish =
// secs*1e9+nsecs, sequence 0,1,2..., channel = connection topic + header fields, one schema per distinct type/md5.
// params: shape (0: 1 conn 1 msg; 1: 2 conns 3 msgs interleaved; 2: 2 conns, second record of conn 0 repeated, 2 msgs),
//         chunked (bag chunk), mchunk (MCAP writer chunked)
func VC18Bag() {
	shape, chunked, mchunk := vParam("shape"), vParam("chunked") == 1, vParam("mchunk") == 1
	mkConn := func(tag string, ln int, cid bool) *bConn {
		c := &bConn{id: vSymU32(tag + "_id"), topic: vSymBytes(tag+"_topic", ln, ln), typ: vSymBytes(tag+"_type", ln, ln), md5: vSymBytes(tag+"_md5", 1, 1), def: vSymBytes(tag+"_def", ln+1, ln+1)}
		if cid {
			c.cid = vSymBytes(tag+"_cid", 1, 1)
			// a remapped connection: the topic in the connection data differs from the topic the messages are stored on
			c.dtopic = vSymBytes(tag+"_dtopic", ln+1, ln+1)
		}
		return c
	}
	mkMsg := func(tag string, conn uint32, dn int) *bMsg {
		return &bMsg{conn: conn, secs: vSymU32(tag + "_secs"), nsecs: vSymU32(tag + "_nsecs"), data: vSymBytes(tag+"_data", dn, dn)}
	}
	var conns []*bConn
	var msgs []*bMsg
	var order []int
	switch shape {
	case 0:
		conns = []*bConn{mkConn("c0", 1, false)}
		msgs = []*bMsg{mkMsg("m0", conns[0].id, 2)}
		order = []int{0, -1}
	case 1:
		conns = []*bConn{mkConn("c0", 1, true), mkConn("c1", 1, false)}
		vAssume(conns[0].id != conns[1].id)
		msgs = []*bMsg{mkMsg("m0", conns[0].id, 1), mkMsg("m1", conns[1].id, 0), mkMsg("m2", conns[0].id, 2)}
		order = []int{0, -1, 1, -2, -3}
	case 2:
		conns = []*bConn{mkConn("c0", 2, false), mkConn("c1", 2, false)}
		vAssume(conns[0].id != conns[1].id)
		msgs = []*bMsg{mkMsg("m0", conns[1].id, 1), mkMsg("m1", conns[0].id, 1)}
		order = []int{0, 1, 0, -1, -2}
	case 3:
		// one message larger than the converter's initial 1 MiB record buffers (param big = its size), then a small one
		conns = []*bConn{mkConn("c0", 1, false)}
		msgs = []*bMsg{mkMsg("m0", conns[0].id, vParam("big")), mkMsg("m1", conns[0].id, 2)}
		order = []int{0, -1, -2}
	}
	bag := vBag(conns, msgs, order, chunked)
	sink := &vSinkR{}
	err := Bag2MCAP(sink, bytes.NewReader(bag), &mcap.WriterOptions{Chunked: mchunk, ChunkSize: 1, IncludeCRC: shape != 3})
	tooMany := false
	for _, c := range conns {
		tooMany = vOr(tooMany, c.id > 65535)
	}
	if err != nil {
		vAssert(tooMany, "conversion of a valid bag fails only for connection ids above 65535")
		vReach("too-many-connections")
		vReach("end")
		return
	}
	vAssert(!tooMany, "a connection id above 65535 is refused")
	// decode the output
	lex, lerr := mcap.NewLexer(bytes.NewReader(sink.b), &mcap.LexerOptions{ValidateChunkCRCs: true})
	vAssert(lerr == nil, "output has the MCAP magic")
	var schemas []*mcap.Schema
	var channels []*mcap.Channel
	var messages []*mcap.Message
	sawHeader, sawFooter := false, false
	dataEnd := false
	for {
		tok, rec, err := lex.Next(nil)
		if err != nil {
			vAssert(err == io.EOF, "output lexes to EOF")
			break
		}
		switch tok {
		case mcap.TokenHeader:
			h, err := mcap.ParseHeader(rec)
			vAssert(err == nil && vStrEq(h.Profile, "ros1"), "header profile ros1")
			sawHeader = true
		case mcap.TokenDataEnd:
			dataEnd = true
		case mcap.TokenFooter:
			sawFooter = true
		case mcap.TokenSchema:
			if !dataEnd {
				s, err := mcap.ParseSchema(rec)
				vAssert(err == nil, "schema parses")
				schemas = append(schemas, s)
			}
		case mcap.TokenChannel:
			if !dataEnd {
				c, err := mcap.ParseChannel(rec)
				vAssert(err == nil, "channel parses")
				channels = append(channels, c)
			}
		case mcap.TokenMessage:
			m, err := mcap.ParseMessage(rec)
			vAssert(err == nil, "message parses")
			messages = append(messages, m)
		}
	}
	vAssert(sawHeader && sawFooter, "a complete MCAP file")
	// messages: one per bag message, in bag order
	vAssert(len(messages) == len(msgs), "one MCAP message per bag message")
	for i := range messages {
		if i >= len(msgs) {
			break
		}
		e := msgs[i]
		t := uint64(e.secs)*1000000000 + uint64(e.nsecs)
		vAssert(messages[i].Sequence == uint32(i), "sequence numbers count bag messages")
		vAssert(vAnd(messages[i].LogTime == t, messages[i].PublishTime == t), "log and publish time are the bag time in nanoseconds")
		vAssert(uint32(messages[i].ChannelID) == e.conn, "message on the channel of its connection")
		vAssert(len(messages[i].Data) == len(e.data) && vBytesEq(messages[i].Data, e.data), "same message bytes")
	}
	// channels: every channel record of the output describes one of the connections (topic and header fields minus
	// type/definition, schema with its type and definition); every connection has at least one channel record and at
	// most one per connection record (the property does not say whether a repeated connection record is repeated
	// in the output, so both are accepted)
	nConnRecs := make([]int, len(conns))
	for _, o := range order {
		if o >= 0 {
			nConnRecs[o]++
		}
	}
	nChan := make([]int, len(conns))
	for _, ch := range channels {
		ci := -1
		for j := range conns {
			if ci < 0 && vFork(uint32(ch.ID) == conns[j].id) {
				ci = j
			}
		}
		vAssert(ci >= 0, "channel id is the connection id")
		if ci < 0 {
			continue
		}
		c := conns[ci]
		nChan[ci]++
		vAssert(vStrEq(ch.Topic, string(c.topic)), "channel topic is the connection topic")
		vAssert(vStrEq(ch.MessageEncoding, "ros1"), "channel message encoding ros1")
		vAssert(vStrEq(ch.Metadata["md5sum"], string(c.md5)) && vStrEq(ch.Metadata["topic"], string(c.dataTopic())), "channel metadata carries the connection header fields")
		_, hasType := ch.Metadata["type"]
		_, hasDef := ch.Metadata["message_definition"]
		vAssert(!hasType && !hasDef, "type and definition are not channel metadata")
		if c.cid != nil {
			vAssert(vStrEq(ch.Metadata["callerid"], string(c.cid)), "callerid preserved")
		}
		// its schema carries type and definition
		var sc *mcap.Schema
		for _, s := range schemas {
			if s.ID == ch.SchemaID {
				sc = s
			}
		}
		vAssert(sc != nil, "channel refers to a written schema")
		if sc != nil {
			vAssert(vStrEq(sc.Name, string(c.typ)) && vStrEq(sc.Encoding, "ros1msg"), "schema carries the connection's type")
			// a schema is shared by connections with the same type/md5 (whose definitions are the same in a valid
			// bag): the definition is asserted against the first connection that introduced the type/md5
			firstOfKind := true
			for _, prev := range conns {
				if prev == c {
					break
				}
				if vFork(vAnd(vBytesEq(prev.typ, c.typ), vBytesEq(prev.md5, c.md5))) {
					firstOfKind = false
				}
			}
			if firstOfKind {
				vAssert(vBytesEq(sc.Data, c.def), "schema carries the connection's definition")
			}
		}
	}
	for j := range conns {
		vAssert(nChan[j] >= 1, "a channel for every connection")
		vAssert(nChan[j] <= nConnRecs[j], "no more channel records than connection records")
	}
	// one schema per distinct type/md5
	if len(conns) == 2 {
		same := vAnd(vBytesEq(conns[0].typ, conns[1].typ), vBytesEq(conns[0].md5, conns[1].md5))
		if vFork(same) {
			vAssert(len(schemas) == 1, "connections sharing type and md5 share one schema")
			vReach("shared-schema")
		} else {
			vAssert(len(schemas) == 2, "distinct type/md5 get distinct schemas")
		}
	} else {
		vAssert(len(schemas) == 1, "one schema")
	}
	vReach("end")
}

// C18 (robustness): input that is not a valid bag produces an error, never a crash or process exit.
// params: mode 0: n arbitrary bytes (n symbolic <= max) as the whole input
//              1: correct magic followed by n arbitrary bytes
//              2: correct magic, then one record whose header (hn bytes) and data (dn bytes) are arbitrary bytes with correct framing
func VC18Robust() {
	vAllocLimit(1 << 40) // memory requests are not part of C18's statement (C10 owns that for the mcap package)
	mode, max := vParam("mode"), vParam("max")
	var in []byte
	switch mode {
	case 0:
		n := vSymInt("n")
		in = vSymBytes("in", n, max)
	case 1:
		n := vSymInt("n")
		in = append(append([]byte(nil), BagMagic...), vSymBytes("in", n, max)...)
	case 2:
		hn, dn := vParam("hn"), vParam("dn")
		var b bBuf
		b.b = append(b.b, BagMagic...)
		bRecord(&b, vSymBytes("hdr", hn, hn), vSymBytes("dat", dn, dn))
		in = b.b
	}
	sink := &vSinkR{}
	_ = Bag2MCAP(sink, bytes.NewReader(in), &mcap.WriterOptions{})
	vReach("end")
}

// C18 helpers on arbitrary bytes (they receive slices cut from the input file, so any content is reachable).
// params: fn (0 extractHeaderValue with key "op", 1 headerToMap), max
func VC18Helpers() {
	vAllocLimit(1 << 40)
	fn, max := vParam("fn"), vParam("max")
	n := vSymInt("n")
	buf := vSymBytes("buf", n, max)
	switch fn {
	case 0:
		_, _ = extractHeaderValue(buf, headerOp)
	case 1:
		_, _ = headerToMap(buf)
	}
	vReach("end")
}
