package main

import (
	"regexp"
	"fmt"
	"go/types"

	"golang.org/x/tools/go/ssa"
)

type Value interface{}

type Str struct {
	arr    *Term
	off, n *Term
}
type ByteObj struct {
	arr  *Term
	size *Term
	id   int
}
type BSlice struct {
	obj         *ByteObj
	off, n, cap *Term
}
type BPtr struct { // pointer to one byte, or to [N]byte when arr
	obj *ByteObj
	idx *Term
}
type Struct []Value
type Array []Value
type VSlice struct {
	data []Value
	null bool
}
type Map struct {
	keys []Value
	vals []Value
	kt   types.Type
}
type Iface struct {
	t types.Type
	v Value
}
type Closure struct {
	fn  *ssa.Function
	env []Value
}
type Tuple []Value
type OpaqueErr struct {
	msg   string
	wraps []Value
	id    int
}
// NativeRegexp: a compiled regular expression (pattern concrete); matching is done natively on concrete subjects.
type NativeRegexp struct{ re *regexp.Regexp }

type MapIter struct {
	m     *Map
	order []int
	pos   int
	str   *Str
}

var i64_0 = BV(64, 0)

func I64(v int64) *Term { return BV(64, uint64(v)) }

func isByte(t types.Type) bool {
	b, ok := t.Underlying().(*types.Basic)
	return ok && (b.Kind() == types.Uint8)
}

func width(t types.Type) (int, bool) { // width, signed
	b, ok := t.Underlying().(*types.Basic)
	if !ok {
		panic("width of non-basic " + t.String())
	}
	switch b.Kind() {
	case types.Bool, types.UntypedBool:
		return 0, false
	case types.Int8:
		return 8, true
	case types.Uint8:
		return 8, false
	case types.Int16:
		return 16, true
	case types.Uint16:
		return 16, false
	case types.Int32, types.UntypedRune:
		return 32, true
	case types.Uint32:
		return 32, false
	case types.Int, types.Int64, types.UntypedInt:
		return 64, true
	case types.Uint, types.Uint64, types.Uintptr:
		return 64, false
	}
	panic("unsupported basic " + t.String())
}

func zero(t types.Type) Value {
	switch u := t.Underlying().(type) {
	case *types.Basic:
		if u.Kind() == types.String || u.Kind() == types.UntypedString {
			return Str{ArrConst(0), i64_0, i64_0}
		}
		if u.Kind() == types.UnsafePointer {
			return nil
		}
		if u.Kind() == types.UntypedNil || u.Kind() == types.Invalid {
			return nil
		}
		if u.Info()&types.IsFloat != 0 {
			return float64(0)
		}
		if u.Info()&types.IsComplex != 0 {
			return nil
		}
		w, _ := width(t)
		if w == 0 {
			return Bool(false)
		}
		return BV(w, 0)
	case *types.Struct:
		s := make(Struct, u.NumFields())
		for i := range s {
			s[i] = zero(u.Field(i).Type())
		}
		return s
	case *types.Array:
		if isByte(u.Elem()) {
			return &ByteObj{arr: ArrConst(0), size: I64(u.Len())}
		}
		a := make(Array, u.Len())
		for i := range a {
			a[i] = zero(u.Elem())
		}
		return a
	case *types.Slice:
		if isByte(u.Elem()) {
			return BSlice{nil, i64_0, i64_0, i64_0}
		}
		return VSlice{null: true}
	case *types.Pointer:
		return (*Value)(nil)
	case *types.Map:
		return (*Map)(nil)
	case *types.Interface:
		return Iface{}
	case *types.Signature:
		return (*Closure)(nil)
	case *types.Chan:
		return nil
	case *types.Tuple:
		tt := make(Tuple, u.Len())
		for i := range tt {
			tt[i] = zero(u.At(i).Type())
		}
		return tt
	}
	panic(fmt.Sprintf("zero: unsupported type %s (%T)", t, t.Underlying()))
}

func copyVal(v Value) Value {
	switch x := v.(type) {
	case Struct:
		n := make(Struct, len(x))
		for i := range x {
			n[i] = copyVal(x[i])
		}
		return n
	case Array:
		n := make(Array, len(x))
		for i := range x {
			n[i] = copyVal(x[i])
		}
		return n
	case *ByteObj: // array value semantics: [N]byte copied
		return &ByteObj{arr: x.arr, size: x.size}
	}
	return v
}
