package main

import (
	"strconv"
	"bufio"
	"bytes"
	"encoding/json"
	"fmt"
	"io"
	"os"
	"os/exec"
	"path/filepath"
	"regexp"
	"sort"
	"strings"
	"sync"
	"time"
)

// ---------- known findings ----------

type knownFinding struct {
	Property string
	ID       string
	Desc     string
}

// known_findings.txt lines:
//   finding: property=C04 id=C04-K1 <description>
//   fixed: property=C10 <commit> <description>      (suppresses nothing)
func loadKnown(prop string) []knownFinding {
	b, err := os.ReadFile(filepath.Join(verifRoot(), "known_findings.txt"))
	if err != nil {
		return nil
	}
	var out []knownFinding
	for _, l := range strings.Split(string(b), "\n") {
		l = strings.TrimSpace(l)
		if !strings.HasPrefix(l, "finding:") {
			continue
		}
		f := strings.Fields(l[len("finding:"):])
		k := knownFinding{}
		var rest []string
		for _, w := range f {
			switch {
			case strings.HasPrefix(w, "property=") && k.Property == "":
				k.Property = w[len("property="):]
			case strings.HasPrefix(w, "id=") && k.ID == "":
				k.ID = w[len("id="):]
			default:
				rest = append(rest, w)
			}
		}
		k.Desc = strings.Join(rest, " ")
		applies := k.Property == prop
		for _, w := range rest {
			// also=C01,C02: other properties whose harnesses exclude this finding's inputs by assumption
			if strings.HasPrefix(w, "also=") {
				for _, p := range strings.Split(w[len("also="):], ",") {
					if p == prop {
						applies = true
					}
				}
			}
		}
		if applies && k.ID != "" {
			out = append(out, k)
		}
	}
	return out
}

// ---------- worker pool ----------

type workerProc struct {
	cmd    *exec.Cmd
	in     io.WriteCloser
	out    *bufio.Scanner
	module string
}

func startWorker(module string) (*workerProc, error) {
	self, _ := os.Executable()
	cmd := exec.Command(self, "worker", module)
	cmd.Stderr = os.Stderr
	cmd.Env = append(os.Environ(), "GOMAXPROCS=1")
	in, _ := cmd.StdinPipe()
	outp, _ := cmd.StdoutPipe()
	if err := cmd.Start(); err != nil {
		return nil, err
	}
	sc := bufio.NewScanner(outp)
	sc.Buffer(make([]byte, 1<<20), 1<<28)
	w := &workerProc{cmd: cmd, in: in, out: sc, module: module}
	if !sc.Scan() {
		return nil, fmt.Errorf("worker died during load")
	}
	var hello map[string]string
	json.Unmarshal(sc.Bytes(), &hello)
	if hello["fatal"] != "" {
		cmd.Wait()
		return nil, fmt.Errorf("%s", hello["fatal"])
	}
	return w, nil
}

func (w *workerProc) kill() {
	w.in.Close()
	w.cmd.Process.Kill()
	w.cmd.Wait()
}

func (w *workerProc) run(job *Job, hardTimeout time.Duration) (*JobResult, bool) {
	b, _ := json.Marshal(job)
	if _, err := w.in.Write(append(b, '\n')); err != nil {
		return nil, false
	}
	type rr struct {
		res *JobResult
		ok  bool
	}
	ch := make(chan rr, 1)
	go func() {
		if !w.out.Scan() {
			ch <- rr{nil, false}
			return
		}
		var res JobResult
		if err := json.Unmarshal(w.out.Bytes(), &res); err != nil {
			ch <- rr{nil, false}
			return
		}
		ch <- rr{&res, true}
	}()
	select {
	case r := <-ch:
		return r.res, r.ok
	case <-time.After(hardTimeout):
		return nil, false
	}
}

// runJobs distributes jobs over worker processes (one pool per module). A job that reports pending
// subtrees (SplitAt) is split: the subtrees are re-queued as sub-jobs and merged into the root's result.
func runJobs(jobs []*Job, nworkers int, progress bool) ([]*JobResult, error) {
	results := make([]*JobResult, len(jobs))
	type item struct {
		job *Job
	}
	var mu sync.Mutex
	cond := sync.NewCond(&mu)
	queues := map[string][]*Job{}
	outstanding := 0
	for i, j := range jobs {
		j.ID = i
		j.Root = i
		queues[j.Module] = append(queues[j.Module], j)
		outstanding++
	}
	var firstErr error
	var wg sync.WaitGroup
	rootStart := map[int]time.Time{}
	globalDeadline := time.Now().Add(checkBudget())
	mods := []string{}
	for m := range queues {
		mods = append(mods, m)
		q := queues[m]
		sort.SliceStable(q, func(a, b int) bool { return q[a].TimeoutS > q[b].TimeoutS })
	}
	sort.Strings(mods)
	done := 0
	merge := func(root int, r *JobResult) {
		cur := results[root]
		if cur == nil {
			results[root] = r
			return
		}
		cur.Paths += r.Paths
		cur.Forks += r.Forks
		cur.Queries += r.Queries
		cur.SolverTimeS += r.SolverTimeS
		cur.Unknown += r.Unknown
		cur.CrossChecked += r.CrossChecked
		cur.Disagreements += r.Disagreements
		cur.CutThird += r.CutThird
		cur.WallS += r.WallS
		if r.Terms > cur.Terms {
			cur.Terms = r.Terms
		}
		if cur.DecidedBy == nil {
			cur.DecidedBy = map[string]int{}
		}
		for k, v := range r.DecidedBy {
			cur.DecidedBy[k] += v
		}
		if cur.Ended == nil {
			cur.Ended = map[string]int{}
		}
		for k, v := range r.Ended {
			cur.Ended[k] += v
		}
		for k, v := range r.Inconclusive {
			if cur.Inconclusive == nil {
				cur.Inconclusive = map[string]int{}
			}
			cur.Inconclusive[k] += v
		}
		seen := map[string]bool{}
		for _, v := range cur.Violations {
			seen[v.Kind+"@"+v.Where+"#"+v.Label+"#"+v.Known] = true
		}
		for _, v := range r.Violations {
			if !seen[v.Kind+"@"+v.Where+"#"+v.Label+"#"+v.Known] {
				cur.Violations = append(cur.Violations, v)
			}
		}
		for k, v := range r.Reached {
			if cur.Reached == nil {
				cur.Reached = map[string]*Witness{}
			}
			if cur.Reached[k] == nil {
				cur.Reached[k] = v
			}
		}
		cur.Funcs = unionSorted(cur.Funcs, r.Funcs)
		cur.Stubs = unionSorted(cur.Stubs, r.Stubs)
		cur.Assumes = unionSorted(cur.Assumes, r.Assumes)
		if r.Error != "" && cur.Error == "" {
			cur.Error = r.Error
		}
		cur.Complete = cur.Complete && r.Complete
	}
	for _, mod := range mods {
		n := nworkers
		for k := 0; k < n; k++ {
			wg.Add(1)
			go func(mod string) {
				defer wg.Done()
				var w *workerProc
				defer func() {
					if w != nil {
						w.in.Close()
						w.cmd.Wait()
					}
				}()
				for {
					mu.Lock()
					for len(queues[mod]) == 0 && outstanding > 0 {
						cond.Wait()
					}
					if len(queues[mod]) == 0 {
						mu.Unlock()
						return
					}
					job := queues[mod][0]
					queues[mod] = queues[mod][1:]
					if _, ok := rootStart[job.Root]; !ok {
						rootStart[job.Root] = time.Now()
					}
					rootAge := time.Since(rootStart[job.Root])
					mu.Unlock()
					var res *JobResult
					// budgets: a root job and all the sub-jobs split off it share 2x the root's time limit (a broken tree can
					// make a harness explode; the check must still end), and the whole check has a wall budget
					budget := time.Duration(2*job.TimeoutS) * time.Second
					if checkTier == "quick" && budget > 10*time.Minute {
						budget = 10 * time.Minute
					}
					if time.Now().After(globalDeadline) || (job.TimeoutS > 0 && rootAge > budget) {
						res = &JobResult{ID: job.ID, Harness: job.Harness, Module: mod, Params: job.Params,
							Inconclusive: map[string]int{"time budget exhausted before this subtree was explored": 1}, Ended: map[string]int{}}
					} else if job.TimeoutS > 0 && job.Prefixes != nil {
						if left := int((budget - rootAge).Seconds()); left < job.TimeoutS {
							jc := *job
							jc.TimeoutS = left + 1
							job = &jc
						}
					}
					if w == nil {
						var err error
						w, err = startWorker(mod)
						if err != nil {
							mu.Lock()
							if firstErr == nil {
								firstErr = err
							}
							mu.Unlock()
							w = nil
							res = &JobResult{ID: job.ID, Harness: job.Harness, Module: mod, Params: job.Params, Error: "worker start: " + err.Error()}
						}
					}
					if res == nil {
						hard := time.Duration(job.TimeoutS+60) * time.Second
						var ok bool
						res, ok = w.run(job, hard)
						if !ok {
							w.kill()
							w = nil
							res = &JobResult{ID: job.ID, Harness: job.Harness, Module: mod, Params: job.Params,
								Inconclusive: map[string]int{"worker killed (hard timeout or crash)": 1}, Ended: map[string]int{}}
						}
					}
					mu.Lock()
					if len(res.Pending) > 0 {
						// split the pending subtrees into sub-jobs
						groups := len(res.Pending)
						if groups > 32 {
							groups = 32
						}
						for g := 0; g < groups; g++ {
							sub := *job
							sub.Prefixes = nil
							for k := g; k < len(res.Pending); k += groups {
								sub.Prefixes = append(sub.Prefixes, res.Pending[k])
							}
							sub.SplitAt = job.SplitAt * 4
							sj := sub
							queues[mod] = append(queues[mod], &sj)
							outstanding++
						}
						res.Pending = nil
					}
					merge(job.Root, res)
					outstanding--
					done++
					if progress {
						fmt.Fprintf(os.Stderr, "  [%d done, %d outstanding] %s %v paths=%d q=%d wall=%.1fs viol=%d inconcl=%v %s\n", done, outstanding, res.Harness, res.Params, res.Paths, res.Queries, res.WallS, len(res.Violations), res.Inconclusive, res.Error)
					}
					cond.Broadcast()
					mu.Unlock()
				}
			}(mod)
		}
	}
	wg.Wait()
	return results, firstErr
}

// checkBudget: wall budget of one check run (VERIF_BUDGET_S overrides; default 15 min quick, 5 h thorough).
var checkTier = "quick"

func checkBudget() time.Duration {
	if v := os.Getenv("VERIF_BUDGET_S"); v != "" {
		if n, err := strconv.Atoi(v); err == nil && n > 0 {
			return time.Duration(n) * time.Second
		}
	}
	if checkTier == "thorough" {
		return 5 * time.Hour
	}
	return 15 * time.Minute
}

func unionSorted(a, b []string) []string {
	m := map[string]bool{}
	for _, x := range a {
		m[x] = true
	}
	for _, x := range b {
		m[x] = true
	}
	return keysOf(m)
}

// ---------- native replay ----------

type replayCase struct {
	File    string
	Job     *Job
	Expect  string // "assert <label>" | "panic" | "exit" | "alloc" | "reach <label>"
	Inputs  map[string]string
	Bytes   map[string]string
	Observe []string
	Known   []string
}

func writeReplayFile(path, prop string, rc *replayCase) error {
	var sb strings.Builder
	fmt.Fprintf(&sb, "property %s\nmodule %s\nharness %s\n", prop, rc.Job.Module, rc.Job.Harness)
	var ks []string
	for k := range rc.Job.Params {
		ks = append(ks, k)
	}
	sort.Strings(ks)
	for _, k := range ks {
		fmt.Fprintf(&sb, "param %s %d\n", k, rc.Job.Params[k])
	}
	ks = ks[:0]
	for k := range rc.Inputs {
		ks = append(ks, k)
	}
	sort.Strings(ks)
	for _, k := range ks {
		fmt.Fprintf(&sb, "in %s %s\n", k, rc.Inputs[k])
	}
	ks = ks[:0]
	for k := range rc.Bytes {
		ks = append(ks, k)
	}
	sort.Strings(ks)
	for _, k := range ks {
		fmt.Fprintf(&sb, "bytes %s %s\n", k, rc.Bytes[k])
	}
	for _, k := range rc.Known {
		fmt.Fprintf(&sb, "known %s\n", k)
	}
	for _, o := range rc.Observe {
		fmt.Fprintf(&sb, "observe %s\n", o)
	}
	fmt.Fprintf(&sb, "expect %s\n", rc.Expect)
	return os.WriteFile(path, []byte(sb.String()), 0o644)
}

var harnessFuncRe = regexp.MustCompile(`(?m)^func (V[A-Za-z0-9_]+)\(\)\s*\{`)

// buildReplayBinary compiles the package's test binary with harness overlays plus a generated registry.
func buildReplayBinary(module, workDir string) (string, error) {
	ov, err := harnessOverlay(module, true)
	if err != nil {
		return "", err
	}
	var names []string
	for _, real := range ov {
		b, _ := os.ReadFile(real)
		for _, m := range harnessFuncRe.FindAllSubmatch(b, -1) {
			names = append(names, string(m[1]))
		}
	}
	sort.Strings(names)
	pkgName := map[string]string{"mcap": "mcap", "ros": "ros", "ros1msg": "ros1msg"}[module]
	var sb strings.Builder
	fmt.Fprintf(&sb, "//go:build verif\n\npackage %s\n\nfunc init() {\n", pkgName)
	for _, n := range names {
		fmt.Fprintf(&sb, "\tvHarnesses[%q] = %s\n", n, n)
	}
	sb.WriteString("}\n")
	os.MkdirAll(workDir, 0o755)
	reg := filepath.Join(workDir, "zz_verif_registry_"+module+".go")
	if err := os.WriteFile(reg, []byte(sb.String()), 0o644); err != nil {
		return "", err
	}
	ov[filepath.Join(moduleDirs[module], "zz_verif_registry.go")] = reg
	ovj, _ := json.Marshal(map[string]map[string]string{"Replace": ov})
	ovPath := filepath.Join(workDir, "overlay_"+module+".json")
	os.WriteFile(ovPath, ovj, 0o644)
	bin := filepath.Join(workDir, "replay_"+module+".test")
	cmd := exec.Command("go", "test", "-c", "-tags", "verif", "-vet=off", "-overlay", ovPath, "-o", bin, ".")
	cmd.Dir = moduleDirs[module]
	cmd.Env = repoEnv()
	out, err := cmd.CombinedOutput()
	if err != nil {
		return "", fmt.Errorf("native harness build failed: %v\n%s", err, out)
	}
	return bin, nil
}

type replayOutcome struct {
	Kind     string // assert | panic | exit | alloc | ok | assume | died | observe-mismatch | timeout
	Detail   string
	Reached  map[string]bool
	Output   string
	Mismatch []string
}

func runReplay(bin, file string, module string) *replayOutcome {
	cmd := exec.Command("timeout", "-k", "5", "120", bin, "-test.run", "^TestVerifReplay$", "-test.v", "-test.timeout", "110s")
	cmd.Dir = moduleDirs[module]
	cmd.Env = append(os.Environ(), "VERIF_REPLAY="+file)
	var buf bytes.Buffer
	cmd.Stdout = &buf
	cmd.Stderr = &buf
	err := cmd.Run()
	out := buf.String()
	ro := &replayOutcome{Reached: map[string]bool{}, Output: out}
	final := ""
	for _, l := range strings.Split(out, "\n") {
		l = strings.TrimSpace(l)
		if !strings.HasPrefix(l, "VERIF-RESULT ") {
			continue
		}
		f := strings.SplitN(l[len("VERIF-RESULT "):], " ", 2)
		d := ""
		if len(f) > 1 {
			d = f[1]
		}
		switch f[0] {
		case "reach":
			ro.Reached[d] = true
		case "observe-mismatch":
			ro.Mismatch = append(ro.Mismatch, d)
		default:
			final = f[0]
			ro.Detail = d
		}
	}
	if final == "" {
		if err != nil {
			if ee, ok := err.(*exec.ExitError); ok && ee.ExitCode() == 124 {
				ro.Kind = "timeout"
				return ro
			}
			ro.Kind = "died" // process exit / fatal error without a result line
			if strings.Contains(out, "fatal error: runtime: out of memory") || strings.Contains(out, "cannot allocate memory") {
				ro.Kind = "alloc"
			}
			return ro
		}
		ro.Kind = "noresult"
		return ro
	}
	ro.Kind = final
	return ro
}

func confirms(expectKind, expectLabel string, ro *replayOutcome) bool {
	switch expectKind {
	case "assert":
		return ro.Kind == "assert" && ro.Detail == expectLabel
	case "panic":
		return ro.Kind == "panic"
	case "exit":
		return ro.Kind == "died" || ro.Kind == "exit"
	case "unwind":
		return ro.Kind == "died" || ro.Kind == "timeout" || (ro.Kind == "panic" && strings.Contains(ro.Detail, "stack"))
	case "alloc":
		return ro.Kind == "alloc" || (ro.Kind == "panic" && (strings.Contains(ro.Detail, "makeslice") || strings.Contains(ro.Detail, "out of memory"))) || ro.Kind == "died"
	}
	return false
}

// ---------- the check ----------

type checkReport struct {
	prop       string
	tier       string
	violations int
}

func runCheck(prop, tier string) int {
	t0 := time.Now()
	spec, ok := checkTable[prop]
	if !ok {
		fmt.Fprintf(os.Stderr, "no check registered for %s\n", prop)
		return 2
	}
	checkTier = tier
	known := loadKnown(prop)
	var knownIDs []string
	knownDesc := map[string]string{}
	for _, k := range known {
		knownIDs = append(knownIDs, k.ID)
		knownDesc[k.ID] = k.Desc
	}
	jobs := spec.jobs(tier)
	for _, j := range jobs {
		j.Known = knownIDs
		if j.SplitAt == 0 {
			j.SplitAt = 16
		}
	}
	workDir := filepath.Join(outRoot(), "work", prop)
	os.RemoveAll(workDir)
	os.MkdirAll(workDir, 0o755)
	nw := 16
	fmt.Fprintf(os.Stderr, "%s %s: %d jobs\n", prop, tier, len(jobs))
	results, err := runJobs(jobs, nw, os.Getenv("VERIF_PROGRESS") != "")
	if err != nil && allFailed(results) {
		fmt.Printf("CHECK-BROKEN property=%s cannot load/encode: %v\n", prop, err)
		writeEvidence(prop, tier, spec, jobs, results, nil, 0, 0, 0, time.Since(t0).Seconds(), []string{"check could not run: " + err.Error()})
		return 2
	}

	// native builds per module, lazily
	bins := map[string]string{}
	getBin := func(module string) (string, error) {
		if b, ok := bins[module]; ok {
			return b, nil
		}
		b, err := buildReplayBinary(module, workDir)
		if err != nil {
			return "", err
		}
		bins[module] = b
		return b, nil
	}

	exit := 0
	nViol, nKnown, nMismatch, nValidated := 0, 0, 0, 0
	var lines []string
	knownPrinted := map[string]bool{}
	seq := 0
	var vrecs []vrec
	reportedSites := map[string]bool{}
	for i, res := range results {
		if res == nil {
			continue
		}
		for _, v := range res.Violations {
			seq++
			file := filepath.Join(workDir, fmt.Sprintf("cex_%03d.replay", seq))
			rc := &replayCase{Job: jobs[i], Inputs: v.Inputs, Bytes: v.Bytes, Known: knownIDs}
			rc.Expect = v.Kind
			if v.Kind == "assert" {
				rc.Expect = "assert " + v.Label
			}
			writeReplayFile(file, prop, rc)
			bin, berr := getBin(jobs[i].Module)
			native := "build-failed"
			confirmed := false
			if berr == nil {
				ro := runReplay(bin, file, jobs[i].Module)
				native = ro.Kind + " " + ro.Detail
				if v.Known != "" && ro.Kind == "known" {
					confirmed = true
				} else {
					confirmed = confirms(v.Kind, v.Label, ro)
				}
				if !confirmed {
					os.WriteFile(file+".native.log", []byte(ro.Output), 0o644)
				}
			} else {
				fmt.Fprintln(os.Stderr, berr)
			}
			vrecs = append(vrecs, vrec{Job: res.Harness, Params: res.Params, Kind: v.Kind, Label: v.Label, Where: v.Where, Func: v.Func, Known: v.Known, Replay: file, Native: native, Confirmed: confirmed, Inputs: v.Inputs})
			switch {
			case !confirmed:
				nMismatch++
				lines = append(lines, fmt.Sprintf("ENGINE-MISMATCH property=%s harness=%s kind=%s label=%q at %s native=%q replay=%s", prop, res.Harness, v.Kind, v.Label, v.Where, native, file))
			case v.Known != "":
				nKnown++
				if !knownPrinted[v.Known] {
					knownPrinted[v.Known] = true
					lines = append(lines, fmt.Sprintf("KNOWN-FINDING: property=%s %s %s", prop, v.Known, knownDesc[v.Known]))
				}
			default:
				nViol++
				site := v.Kind + "|" + v.Label + "|" + v.Func
				if !reportedSites[site] {
					reportedSites[site] = true
					// keep a stable copy of the replay next to the evidence (work/ is wiped per run)
					lines = append(lines, fmt.Sprintf("VIOLATION property=%s replay=%s", prop, file))
					lines = append(lines, fmt.Sprintf("  detail: harness=%s params=%v kind=%s label=%q at %s in %s native=%q", res.Harness, res.Params, v.Kind, v.Label, v.Where, v.Func, native))
				}
				exit = 1
			}
		}
	}
	// vacuity + differential: replay one witness per job natively
	wseq := 0
	var witnessFail []string
	var samples []any
	// witness replays are independent processes: run them concurrently, consume the outcomes in job order
	type witTask struct {
		file string
		bin  string
		mod  string
		ro   *replayOutcome
	}
	witTasks := map[int]*witTask{}
	for i, res := range results {
		if res == nil || res.Reached == nil || res.Reached["end"] == nil {
			continue
		}
		w := res.Reached["end"]
		wseq++
		file := filepath.Join(workDir, fmt.Sprintf("wit_%03d.replay", wseq))
		rc := &replayCase{Job: jobs[i], Inputs: w.Inputs, Bytes: w.Bytes, Known: knownIDs, Observe: w.Observed, Expect: "reach end"}
		writeReplayFile(file, prop, rc)
		bin, berr := getBin(jobs[i].Module)
		if berr != nil {
			fmt.Fprintln(os.Stderr, berr)
			witTasks[i] = &witTask{file: file}
			continue
		}
		witTasks[i] = &witTask{file: file, bin: bin, mod: jobs[i].Module}
	}
	{
		var wg sync.WaitGroup
		sem := make(chan struct{}, 12)
		for _, t := range witTasks {
			if t.bin == "" {
				continue
			}
			wg.Add(1)
			go func(t *witTask) {
				defer wg.Done()
				sem <- struct{}{}
				t.ro = runReplay(t.bin, t.file, t.mod)
				<-sem
			}(t)
		}
		wg.Wait()
	}
	for i, res := range results {
		t := witTasks[i]
		if t == nil {
			continue
		}
		w := res.Reached["end"]
		file := t.file
		if t.bin == "" {
			witnessFail = append(witnessFail, fmt.Sprintf("%s %v: native build failed", res.Harness, res.Params))
			continue
		}
		ro := t.ro
		if ro.Reached["end"] && (ro.Kind == "ok" || ro.Kind == "known") && len(ro.Mismatch) == 0 {
			nValidated++
			if len(samples) < 3 {
				samples = append(samples, map[string]any{"harness": res.Harness, "params": res.Params, "witness_inputs": w.Inputs, "witness_bytes": w.Bytes, "observed_values_matched_natively": len(w.Observed), "replayed": true})
			}
		} else {
			os.WriteFile(file+".native.log", []byte(ro.Output), 0o644)
			witnessFail = append(witnessFail, fmt.Sprintf("%s %v: native=%s %s mismatches=%v replay=%s", res.Harness, res.Params, ro.Kind, ro.Detail, ro.Mismatch, file))
		}
	}
	for _, res := range results {
		if res == nil {
			continue
		}
		if res.Error != "" {
			lines = append(lines, fmt.Sprintf("INCONCLUSIVE: property=%s harness=%s %v engine error: %s", prop, res.Harness, res.Params, res.Error))
		}
		for _, k := range sortedKeys(res.Inconclusive) {
			lines = append(lines, fmt.Sprintf("INCONCLUSIVE: property=%s harness=%s %v: %s (x%d)", prop, res.Harness, res.Params, k, res.Inconclusive[k]))
		}
		if res.Error == "" && len(res.Inconclusive) == 0 && spec.needEnd && (res.Reached == nil || res.Reached["end"] == nil) && res.Ended["ok"] == 0 {
			lines = append(lines, fmt.Sprintf("VACUOUS: property=%s harness=%s %v never reaches its end", prop, res.Harness, res.Params))
			nMismatch++
		}
	}
	for _, wf := range witnessFail {
		lines = append(lines, "WITNESS-MISMATCH: property="+prop+" "+wf)
		nMismatch++
	}
	for _, l := range lines {
		fmt.Println(l)
	}
	var vs []any
	for _, v := range vrecs {
		vs = append(vs, v)
	}
	writeEvidence(prop, tier, spec, jobs, results, append(samples, vs...), nViol, nKnown, nValidated+len(vrecs)-nMismatchOf(vrecs), time.Since(t0).Seconds(), nil)
	tot := summarize(results)
	fmt.Printf("SUMMARY property=%s tier=%s jobs=%d paths=%d branch_decisions=%d queries=%d solver_s=%.1f unknown=%d inconclusive_paths=%d violations=%d known=%d mismatches=%d witnesses_validated=%d wall_s=%.1f\n",
		prop, tier, len(jobs), tot.paths, tot.forks, tot.queries, tot.solverS, tot.unknown, tot.inconcl, nViol, nKnown, nMismatch, nValidated, time.Since(t0).Seconds())
	if exit == 0 && nMismatch > 0 {
		// the machinery disagrees with the native code: the check is broken, not the repo (no VIOLATION line)
		return 3
	}
	return exit
}

type vrec struct {
	Job       string            `json:"job"`
	Params    map[string]int64  `json:"params,omitempty"`
	Kind      string            `json:"kind"`
	Label     string            `json:"label"`
	Where     string            `json:"where"`
	Func      string            `json:"func"`
	Known     string            `json:"known,omitempty"`
	Replay    string            `json:"replay"`
	Native    string            `json:"native"`
	Confirmed bool              `json:"confirmed"`
	Inputs    map[string]string `json:"inputs,omitempty"`
}

func nMismatchOf(vs []vrec) int {
	n := 0
	for _, v := range vs {
		if !v.Confirmed {
			n++
		}
	}
	return n
}

func allFailed(rs []*JobResult) bool {
	for _, r := range rs {
		if r != nil && r.Error == "" {
			return false
		}
	}
	return true
}

type totals struct {
	paths, forks, queries, unknown, inconcl, cut int
	cross, disagree                              int
	solverS                                     float64
	decided                                     map[string]int
}

func summarize(results []*JobResult) totals {
	t := totals{decided: map[string]int{}}
	for _, r := range results {
		if r == nil {
			continue
		}
		t.paths += r.Paths
		t.forks += r.Forks
		t.queries += r.Queries
		t.cross += r.CrossChecked
		t.disagree += r.Disagreements
		t.unknown += r.Unknown
		t.cut += r.CutThird
		t.solverS += r.SolverTimeS
		for _, n := range r.Inconclusive {
			t.inconcl += n
		}
		for k, v := range r.DecidedBy {
			t.decided[k] += v
		}
	}
	return t
}

func writeEvidence(prop, tier string, spec *checkSpec, jobs []*Job, results []*JobResult, samples []any, nViol, nKnown, nValidated int, wall float64, notes []string) {
	tot := summarize(results)
	funcs := map[string]bool{}
	stubs := map[string]bool{}
	assumes := map[string]bool{}
	var jobSumm []any
	ended := map[string]int{}
	for i, r := range results {
		if r == nil {
			continue
		}
		for _, f := range r.Funcs {
			if !strings.Contains(f, ".V") || !strings.Contains(f, "mcap") {
				funcs[f] = true
			} else {
				funcs[f] = true
			}
		}
		for _, s := range r.Stubs {
			stubs[s] = true
		}
		for _, a := range r.Assumes {
			assumes["vAssume at "+a] = true
		}
		for k, v := range r.Ended {
			ended[k] += v
		}
		jobSumm = append(jobSumm, map[string]any{"harness": r.Harness, "params": jobs[i].Params, "paths": r.Paths, "branch_decisions": r.Forks, "queries": r.Queries,
			"solver_time_s": round2(r.SolverTimeS), "wall_s": round2(r.WallS), "complete": r.Complete, "inconclusive": r.Inconclusive, "violations": len(r.Violations)})
	}
	if len(samples) == 0 {
		for i, r := range results {
			if r != nil && len(samples) < 3 {
				samples = append(samples, map[string]any{"harness": r.Harness, "params": jobs[i].Params, "paths": r.Paths, "replayed": false})
			}
		}
	}
	if len(samples) > 12 {
		samples = samples[:12]
	}
	states := tot.paths
	trans := tot.forks
	cov := map[string]any{
		"states":                        states,
		"transitions":                   trans,
		"traces_validated_against_impl": nValidated,
		"samples":                       samples,
		"exhaustive":                    tot.inconcl == 0,
		"explanation":                   "bounded symbolic execution of the real go/ssa of /repo (reloaded this run): states = feasible paths explored, transitions = solver-decided fork points; every assertion and implicit run-time check on every path discharged by SMT (unsat) unless listed as violation/inconclusive. 'exhaustive' means: all feasible paths within the stated bounds were explored with zero inconclusive paths.",
		"functions_encoded":             keysOf(funcs),
		"bounds":                        spec.bounds[tier],
		"outside_claim":                 spec.outside,
		"jobs":                          jobSumm,
		"queries":                       tot.queries,
		"solver_time_s":                 round2(tot.solverS),
		"decided_by":                    tot.decided,
		"unknown":                       tot.unknown,
		"cross_check":                   map[string]any{"queries_put_to_a_second_solver": tot.cross, "disagreements": tot.disagree, "rule": "every 128th decided query (VERIF_CROSSCHECK=n: every n-th) is also decided by a different solver build (z3 5.1.0 for answers of z3 4.8.12; z3 4.8.12 for answers of cvc5); a definite answer that differs fails the job"},
		"inconclusive_paths":            tot.inconcl,
		"cut_third_party":               tot.cut,
		"path_endings":                  ended,
		"stubs_used":                    keysOf(stubs),
		"known_findings_hit":            nKnown,
	}
	as := append([]string{}, spec.assumptions...)
	as = append(as, keysOf(assumes)...)
	as = append(as, notes...)
	ev := map[string]any{
		"property_id": prop, "tier": tier, "seed": seedEnv(), "level": "model_checking",
		"coverage": cov, "assumptions": as, "wall_s": round2(wall), "violations": nViol,
	}
	b, _ := json.MarshalIndent(ev, "", " ")
	os.MkdirAll(filepath.Join(outRoot(), "evidence"), 0o755)
	os.WriteFile(filepath.Join(outRoot(), "evidence", prop+".json"), b, 0o644)
}

func seedEnv() int {
	var s int
	fmt.Sscan(os.Getenv("VERIF_SEED"), &s)
	return s
}

func round2(f float64) float64 { return float64(int(f*100+0.5)) / 100 }

func keysOf(m map[string]bool) []string {
	var ks []string
	for k := range m {
		ks = append(ks, k)
	}
	sort.Strings(ks)
	return ks
}

// replayMain re-runs one replay file natively and prints the outcome.
func replayMain(path string) int {
	if abs, err := filepath.Abs(path); err == nil {
		path = abs // the replay test runs in the module directory
	}
	b, err := os.ReadFile(path)
	if err != nil {
		fmt.Fprintln(os.Stderr, err)
		return 2
	}
	module, expect, prop := "", "", ""
	for _, l := range strings.Split(string(b), "\n") {
		f := strings.SplitN(strings.TrimSpace(l), " ", 2)
		if len(f) < 2 {
			continue
		}
		switch f[0] {
		case "module":
			module = f[1]
		case "expect":
			expect = f[1]
		case "property":
			prop = f[1]
		}
	}
	workDir := filepath.Join(outRoot(), "work", "replay")
	bin, err := buildReplayBinary(module, workDir)
	if err != nil {
		fmt.Fprintln(os.Stderr, err)
		return 2
	}
	ro := runReplay(bin, path, module)
	fmt.Print(ro.Output)
	fmt.Printf("REPLAY property=%s expect=%q native=%q detail=%q\n", prop, expect, ro.Kind, ro.Detail)
	ef := strings.SplitN(expect, " ", 2)
	lbl := ""
	if len(ef) > 1 {
		lbl = ef[1]
	}
	if ef[0] == "reach" {
		if ro.Reached[lbl] {
			return 0
		}
		return 1
	}
	if confirms(ef[0], lbl, ro) {
		fmt.Printf("VIOLATION property=%s replay=%s\n", prop, path)
		return 1
	}
	return 0
}
