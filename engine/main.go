package main

import (
	"encoding/json"
	"fmt"
	"os"
	"runtime/pprof"
	"strconv"
	"strings"
)

func usage() {
	fmt.Fprintln(os.Stderr, `usage:
  symgo check <ID> [--tier quick|thorough]
  symgo replay <file>
  symgo job <module> <harness> [k=v ...] [--solvers z3,cvc5] [--timeout s] [--known id,id] [--smtlog prefix]
  symgo worker <module>      (internal)
  symgo list`)
	os.Exit(2)
}

func main() {
	if len(os.Args) < 2 {
		usage()
	}
	switch os.Args[1] {
	case "worker":
		workerMain(os.Args[2])
	case "check":
		if len(os.Args) < 3 {
			usage()
		}
		tier := os.Getenv("VERIF_TIER")
		for i := 3; i < len(os.Args); i++ {
			if os.Args[i] == "--tier" && i+1 < len(os.Args) {
				tier = os.Args[i+1]
			}
		}
		if tier == "" {
			tier = "quick"
		}
		os.Exit(runCheck(os.Args[2], tier))
	case "replay":
		os.Exit(replayMain(os.Args[2]))
	case "list":
		for _, id := range checkIDs() {
			fmt.Printf("%s quick=%d thorough=%d jobs\n", id, len(checkTable[id].jobs("quick")), len(checkTable[id].jobs("thorough")))
		}
	case "job":
		if len(os.Args) < 4 {
			usage()
		}
		job := &Job{Module: os.Args[2], Harness: os.Args[3], Params: map[string]int64{}, Concrete: map[string]uint64{}, TimeoutS: 600}
		for i := 4; i < len(os.Args); i++ {
			a := os.Args[i]
			switch {
			case a == "--solvers":
				i++
				job.Solvers = strings.Split(os.Args[i], ",")
			case a == "--timeout":
				i++
				job.TimeoutS, _ = strconv.Atoi(os.Args[i])
			case a == "--known":
				i++
				job.Known = strings.Split(os.Args[i], ",")
			case a == "--smtlog":
				i++
				job.SmtLog = os.Args[i]
			case a == "--maxpaths":
				i++
				job.MaxPaths, _ = strconv.Atoi(os.Args[i])
			case strings.HasPrefix(a, "c:"):
				kv := strings.SplitN(a[2:], "=", 2)
				v, _ := strconv.ParseUint(kv[1], 0, 64)
				job.Concrete[kv[0]] = v
			case strings.Contains(a, "="):
				kv := strings.SplitN(a, "=", 2)
				v, _ := strconv.ParseInt(kv[1], 0, 64)
				job.Params[kv[0]] = v
			}
		}
		if pf := os.Getenv("CPUPROFILE"); pf != "" {
			f, _ := os.Create(pf)
			pprof.StartCPUProfile(f)
			defer pprof.StopCPUProfile()
		}
		ld, err := loadModule(job.Module)
		if err != nil {
			fmt.Fprintln(os.Stderr, err)
			os.Exit(3)
		}
		res := runJob(ld, job)
		funcs := res.Funcs
		res.Funcs = nil
		b, _ := json.MarshalIndent(res, "", " ")
		fmt.Println(string(b))
		pprof.StopCPUProfile()
		fmt.Printf("funcs=%d paths=%d forks=%d queries=%d solver=%.2fs wall=%.2fs unknown=%d violations=%d complete=%v\n", len(funcs), res.Paths, res.Forks, res.Queries, res.SolverTimeS, res.WallS, res.Unknown, len(res.Violations), res.Complete)
	default:
		usage()
	}
}
