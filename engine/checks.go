package main

import "sort"

type checkSpec struct {
	jobs        func(tier string) []*Job
	bounds      map[string]any // per tier
	outside     []string
	assumptions []string
	needEnd     bool
}

var checkTable = map[string]*checkSpec{}

func checkIDs() []string {
	var ids []string
	for k := range checkTable {
		ids = append(ids, k)
	}
	sort.Strings(ids)
	return ids
}

func P(kv ...any) map[string]int64 {
	m := map[string]int64{}
	for i := 0; i+1 < len(kv); i += 2 {
		switch v := kv[i+1].(type) {
		case int:
			m[kv[i].(string)] = int64(v)
		case int64:
			m[kv[i].(string)] = v
		case bool:
			if v {
				m[kv[i].(string)] = 1
			} else {
				m[kv[i].(string)] = 0
			}
		}
	}
	return m
}

var commonAssumptions = []string{
	"trusted: go/packages+go/ssa lowering (x/tools v0.29.0), the symgo interpreter, z3 4.8.12 / cvc5 1.0 (portfolio; any solver error or unknown = inconclusive)",
	"stubs (DESIGN.md §2.5): fmt.Errorf/Sprintf and errors.New produce opaque errors with wrap chains; errors.Is/As walk the chain calling real Is/Unwrap methods; hash/crc32 is an uninterpreted fold (crc(empty)=0); sort.Slice/SliceStable/Strings are a stable insertion sort calling the real less; sync.Pool/atomics are sequential",
	"zstd/lz4/bzip2 code is outside every claim (paths reaching it are cut and counted)",
	"every solver counterexample is replayed against the natively compiled code before it is reported",
}

func init() {
	checkTable["C10"] = &checkSpec{
		needEnd: false,
		jobs: func(tier string) []*Job {
			var js []*Job
			max := 64
			if tier == "thorough" {
				max = 128
			}
			for fn := 0; fn <= 15; fn++ {
				mx := max
				// the two parsers with a string->string map loop: key comparisons at symbolic offsets are heavy
				if fn == 3 && mx > 48 {
					mx = 48
				}
				if fn == 10 && mx > 40 {
					mx = 40
				}
				js = append(js, &Job{Module: "mcap", Harness: "VC10Parse", Params: P("fn", fn, "max", mx), TimeoutS: 300, Solvers: []string{"cvc5", "z3"}})
			}
			return js
		},
		bounds:      map[string]any{"quick": map[string]any{"leaf_parser_input_bytes": "0..64, all symbolic incl. length"}, "thorough": map[string]any{"leaf_parser_input_bytes": "0..128"}},
		assumptions: commonAssumptions,
	}
}

var outsideCommon = []string{"zstd and lz4 chunk compression (third-party code; cut)", "string/payload lengths other than the enumerated classes", "more records than the templates contain"}

func init() {
	checkTable["C01"] = &checkSpec{
		needEnd: true,
		jobs: func(tier string) []*Job {
			var js []*Job
			add := func(tpl, ln, pn, idv, cfg, skip, cs int) {
				js = append(js, &Job{Module: "mcap", Harness: "VC01RoundTrip", Params: P("tpl", tpl, "ln", ln, "pn", pn, "idv", idv, "cfg", cfg, "skip", skip, "cs", cs), TimeoutS: 600})
			}
			if tier == "quick" {
				for _, tpl := range []int{1, 5, 6, 7} {
					for _, cfg := range []int{0, 2, 1, 3, 7, 3 | 8, 3 | 16} {
						cs := 1000
						if cfg&1 != 0 && tpl >= 5 {
							cs = 1
						}
						add(tpl, 1, 2, 0, cfg, 0, cs)
					}
					add(tpl, 1, 2, 1, 3, 255, 1000)
				}
				add(0, 1, 0, 0, 3, -1, 1000)
				add(2, 0, 0, 1, 3, 0, 1000)
				add(3, 3, 5, 0, 2, 0, 1000)
				add(4, 3, 0, 0, 1, 0, 1000)
				return js
			}
			for tpl := 0; tpl <= 7; tpl++ {
				for _, lp := range [][2]int{{0, 0}, {1, 2}, {3, 5}} {
					for idv := 0; idv <= 1; idv++ {
						for _, cfg := range []int{0, 2, 1, 3, 5, 7, 3 | 8, 7 | 8, 3 | 16, 0 | 16, 2 | 8} {
							for _, cs := range []int{1, 60, 100000} {
								if cfg&1 == 0 && cs != 1 {
									continue
								}
								add(tpl, lp[0], lp[1], idv, cfg, -1, cs)
							}
						}
					}
				}
			}
			return js
		},
		bounds: map[string]any{
			"quick":    map[string]any{"templates": "T0-T7 (T1,T5,T6,T7 across 8 option sets; T0,T2,T3,T4 once)", "string_len": "0,1,3", "payload_len": "0..6", "messages": "<=3", "channels": "<=2", "symbolic": "every byte of every string/payload, sequence, log/publish/create times, lexer validate flag; Skip* flags symbolic for T0"},
			"thorough": map[string]any{"templates": "T0-T7", "string_len": "0,1,3", "payload_len": "0,2,5(+1)", "ids": "{1,2} and {65535,0}", "options": "chunked x crc x xor-codec x skipMagic x overrideLibrary (11 combos) x chunk size {1,60,100000}; all 8 Skip* flags symbolic", "symbolic": "as quick"},
		},
		outside:     outsideCommon,
		assumptions: append([]string{"while known finding C04-K1 is listed: no message log time equals 2^64-1"}, commonAssumptions...),
	}
}

func init() {
	checkTable["C02"] = &checkSpec{
		needEnd: true,
		jobs: func(tier string) []*Job {
			var js []*Job
			add := func(tpl, ln, pn, cfg, skip, cs, ord int) {
				js = append(js, &Job{Module: "mcap", Harness: "VC02Index", Params: P("tpl", tpl, "ln", ln, "pn", pn, "cfg", cfg, "skip", skip, "cs", cs, "ord", ord), TimeoutS: 900})
			}
			if tier == "quick" {
				for _, tpl := range []int{5, 6} {
					for ord := 0; ord <= 3; ord++ {
						add(tpl, 1, 2, 3, 1000+(1|8|64), 1, ord)  // one chunk per message
						add(tpl, 1, 2, 3, 1000+(1|4|8), 1000, ord) // one chunk
					}
					add(tpl, 1, 2, 2, 1000+(16|32|128), 1000, 0) // unchunked
				}
				add(7, 1, 2, 3, 1000+(16|32|2), 1000, 0)
				add(1, 1, 2, 1, 1000+(1|8|64|4), 1000, 0)
				return js
			}
			for _, tpl := range []int{0, 1, 2, 5, 6, 7} {
				for ord := 0; ord <= 3; ord++ {
					for _, c := range [][2]int{{3, 1}, {3, 1000}, {1, 60}, {2, 1}, {0, 1}} {
						add(tpl, 1, 2, c[0], -1, c[1], ord)
					}
				}
			}
			return js
		},
		bounds: map[string]any{
			"quick":    map[string]any{"templates": "T1,T5,T6,T7", "options": "chunked/unchunked, chunk size 1 and 1000, 3-4 Skip* flags symbolic per job (the index-relevant ones)", "orders": "default, FileOrder, LogTimeOrder, ReverseLogTimeOrder", "symbolic": "all field values, listed flags"},
			"thorough": map[string]any{"templates": "T0,T1,T2,T5,T6,T7", "options": "5 base configurations x all 8 Skip* flags symbolic (256 combinations each)", "orders": "all 4"},
		},
		outside:     outsideCommon,
		assumptions: append([]string{"while known finding C04-K1 is listed: no message log time equals 2^64-1"}, commonAssumptions...),
	}
	checkTable["C03"] = &checkSpec{
		needEnd: true,
		jobs: func(tier string) []*Job {
			var js []*Job
			add := func(n, per, rev int) {
				js = append(js, &Job{Module: "mcap", Harness: "VC03Order", Params: P("n", n, "per", per, "rev", rev), TimeoutS: 1800})
			}
			for rev := 0; rev <= 1; rev++ {
				add(3, 1, rev)
				add(4, 2, rev)
				if tier == "thorough" {
					add(4, 1, rev)
					add(5, 2, rev)
					add(5, 3, rev)
					add(6, 2, rev)
					add(6, 3, rev)
				}
			}
			return js
		},
		bounds: map[string]any{
			"quick":    map[string]any{"files": "3 messages in 3 chunks; 4 messages in 3 chunks (1+2+1)", "channels": 2, "symbolic": "every log time (full 64 bit), payload bytes", "reads": "each order twice"},
			"thorough": map[string]any{"files": "up to 6 messages, chunk partitions 1/2/3 per chunk", "channels": 2, "symbolic": "every log time (full 64 bit)"},
		},
		outside:     append([]string{"more than 6 messages / 4 chunks", "combination with time windows and topic filters is decided in C04"}, outsideCommon...),
		assumptions: append([]string{"while known finding C04-K1 is listed: no message log time equals 2^64-1"}, commonAssumptions...),
	}
}

func init() {
	checkTable["C04"] = &checkSpec{
		needEnd: true,
		jobs: func(tier string) []*Job {
			var js []*Job
			add := func(n, per, topics, idx, ord, spell int) {
				if idx == 0 && ord != 0 {
					return
				}
				js = append(js, &Job{Module: "mcap", Harness: "VC04Select", Params: P("n", n, "per", per, "topics", topics, "idx", idx, "ord", ord, "spell", spell), TimeoutS: 900})
			}
			if tier == "quick" {
				for spell := 0; spell <= 8; spell++ {
					add(3, 2, spell%6, 1, spell%3, spell)
					add(3, 2, (spell+1)%6, 0, 0, spell)
				}
				add(4, 2, 3, 1, 1, 0)
				add(4, 2, 1, 1, 2, 4)
				add(3, 1, 5, 1, 2, 1)
				return js
			}
			for _, shape := range [][2]int{{3, 1}, {4, 2}} {
				for topics := 0; topics <= 5; topics++ {
					for idx := 0; idx <= 1; idx++ {
						for ord := 0; ord <= 2; ord++ {
							for spell := 0; spell <= 8; spell++ {
								if shape[0] == 4 && spell >= 5 {
									continue
								}
								add(shape[0], shape[1], topics, idx, ord, spell)
							}
						}
					}
				}
			}
			return js
		},
		bounds: map[string]any{
			"quick":    map[string]any{"files": "3 messages/2 chunks and 4 messages/3 chunks, 3 channels (two share topic a, one has no message)", "symbolic": "all log times, window start and end (64 bit, start<=end)", "enumerated": "9 spellings of the window x topic sets {none,a,b,ab,unknown,a+unknown} x indexed/non-indexed x 3 orders (a diagonal sample of 21 jobs)"},
			"thorough": map[string]any{"files": "as quick", "enumerated": "the full product: 6 topic sets x indexed/non-indexed x 3 orders x 9 spellings (3-message file), x 5 spellings (4-message file)"},
		},
		outside:     append([]string{"negative arguments to the deprecated int64 options", "windows with start > end (rejected by the API)"}, outsideCommon...),
		assumptions: commonAssumptions,
	}
}

func init() {
	checkTable["C08"] = &checkSpec{
		needEnd: true,
		jobs: func(tier string) []*Job {
			var js []*Job
			add := func(tpl, ln, pn, cfg, skip, cs int) {
				js = append(js, &Job{Module: "mcap", Harness: "VC08Stats", Params: P("tpl", tpl, "ln", ln, "pn", pn, "cfg", cfg, "skip", skip, "cs", cs), TimeoutS: 900})
			}
			addc := func(n, per, tail, skip int) {
				js = append(js, &Job{Module: "mcap", Harness: "VC08StatsChunks", Params: P("n", n, "per", per, "tail", tail, "skip", skip), TimeoutS: 900})
			}
			if tier == "quick" {
				for _, tpl := range []int{0, 1, 5, 6, 7} {
					add(tpl, 1, 2, 3, 0, 1)
					add(tpl, 1, 2, 3, 1000+(2|8|64), 1000)
					add(tpl, 1, 2, 2, 1000+(4|16|32), 1000)
				}
				addc(2, 1, 0, 0)
				addc(3, 1, 0, 0)
				addc(3, 2, 0, 1000+(1|2|64))
				addc(1, 1, 1, 0)
				addc(2, 1, 1, 1)
				addc(2, 2, 1, 0)
				addc(3, 2, 1, 0)
				return js
			}
			for tpl := 0; tpl <= 7; tpl++ {
				for _, c := range [][2]int{{3, 1}, {3, 60}, {3, 100000}, {2, 1}, {1, 1}, {0, 1}} {
					add(tpl, 1, 2, c[0], -1, c[1])
				}
				add(tpl, 3, 5, 3, -1, 1)
			}
			for n := 1; n <= 5; n++ {
				for per := 1; per <= 3; per++ {
					for tail := 0; tail <= 1; tail++ {
						addc(n, per, tail, 1000+(1|2|64))
					}
				}
			}
			return js
		},
		bounds: map[string]any{
			"quick":    map[string]any{"templates": "T0,T1,T5,T6,T7 x 3 option sets (chunk size 1 / 1000 / unchunked; 3 Skip* flags symbolic each)", "chunk_files": "1-3 messages, 1-2 per chunk, with/without a trailing chunk that holds only a channel record", "symbolic": "every log time (64 bit), all strings and payload bytes, listed flags"},
			"thorough": map[string]any{"templates": "T0-T7 x 7 option sets, all 8 Skip* flags symbolic", "chunk_files": "1-5 messages x 1-3 per chunk x trailing channel-only chunk"},
		},
		outside:     append([]string{"chunks handed to WriteChunkWithIndexes directly by a caller (the writer's own flush path is what is decided)"}, outsideCommon...),
		assumptions: commonAssumptions,
	}
}
