package main

import "sort"

type checkSpec struct {
	jobs        func(tier string) []*Job
	bounds      map[string]any // per tier
	outside     []string
	assumptions []string
	needEnd     bool
}

var checkTable = map[string]*checkSpec{}

func checkIDs() []string {
	var ids []string
	for k := range checkTable {
		ids = append(ids, k)
	}
	sort.Strings(ids)
	return ids
}

func P(kv ...any) map[string]int64 {
	m := map[string]int64{}
	for i := 0; i+1 < len(kv); i += 2 {
		switch v := kv[i+1].(type) {
		case int:
			m[kv[i].(string)] = int64(v)
		case int64:
			m[kv[i].(string)] = v
		case bool:
			if v {
				m[kv[i].(string)] = 1
			} else {
				m[kv[i].(string)] = 0
			}
		}
	}
	return m
}

var commonAssumptions = []string{
	"trusted: go/packages+go/ssa lowering (x/tools v0.29.0), the symgo interpreter, z3 4.8.12 / cvc5 1.0 (portfolio; any solver error or unknown = inconclusive)",
	"stubs (DESIGN.md §2.5): fmt.Errorf/Sprintf and errors.New produce opaque errors with wrap chains; errors.Is/As walk the chain calling real Is/Unwrap methods; hash/crc32 is an uninterpreted fold (crc(empty)=0); sort.Slice/SliceStable/Strings are a stable insertion sort calling the real less; sync.Pool/atomics are sequential",
	"zstd/lz4/bzip2 code is outside every claim (paths reaching it are cut and counted)",
	"every solver counterexample is replayed against the natively compiled code before it is reported",
}

func init() {
	checkTable["C10"] = &checkSpec{
		needEnd: false,
		jobs: func(tier string) []*Job {
			var js []*Job
			max := 64
			if tier == "thorough" {
				max = 128
			}
			for fn := 0; fn <= 15; fn++ {
				mx := max
				// the two parsers with a string->string map loop: key comparisons at symbolic offsets are heavy
				if fn == 3 && mx > 40 {
					mx = 40
				}
				if fn == 10 && mx > 40 {
					mx = 40
				}
				js = append(js, &Job{Module: "mcap", Harness: "VC10Parse", Params: P("fn", fn, "max", mx), TimeoutS: 300, Solvers: []string{"cvc5", "z3"}})
			}
			cv := []string{"cvc5", "z3", "z3new"}
			// family 2: one lexer step from an arbitrary state, partitioned by the opcode ahead and the option set
			lexl := func(op, mx, inchunk, validate, emit, lim, cb, long int) {
				js = append(js, &Job{Module: "mcap", Harness: "VC10LexStep", Params: P("op", op, "max", mx, "inchunk", inchunk, "validate", validate, "emit", emit, "lim", lim, "cb", cb, "long", long), TimeoutS: 600, Solvers: cv})
			}
			lex := func(op, mx, inchunk, validate, emit, lim, cb int) { lexl(op, mx, inchunk, validate, emit, lim, cb, 0) }
			lmax := 40
			if tier == "thorough" {
				lmax = 56
			}
			for op := 0; op <= 15; op++ {
				if op == 6 || op == 9 {
					continue
				}
				lex(op, lmax, 0, 0, 0, 0, 0)
			}
			lex(256, lmax, 0, 0, 0, 0, 0)
			for _, v := range [][3]int{{0, 0, 0}, {1, 0, 0}, {0, 1, 0}, {1, 0, 20}, {0, 0, 20}} {
				lex(6, lmax+16, 0, v[0], v[1], v[2], 0) // a chunk record needs 49 bytes before its records start
			}
			lexl(9, lmax, 0, 0, 0, 0, 0, 1)
			lexl(9, lmax, 0, 0, 0, 20, 0, 1)
			for _, v := range [][2]int{{0, 0}, {0, 1}, {20, 1}, {20, 0}} {
				lex(9, lmax, 0, 0, 0, v[0], v[1])
			}
			lex(5, lmax, 0, 0, 0, 20, 0)
			lex(1, lmax, 0, 0, 0, 20, 0)
			// family 3: units of the indexed reader on hostile data
			js = append(js, &Job{Module: "mcap", Harness: "VC10ReadRecord", Params: P("max", 32), TimeoutS: 300, Solvers: cv})
			hs := func(field, ord int) {
				js = append(js, &Job{Module: "mcap", Harness: "VC10HostileSummary", Params: P("field", field, "ord", ord), TimeoutS: 900, Solvers: cv})
			}
			for _, f := range []int{1, 4, 6, 9} {
				hs(f, f%3)
			}
			hs(3, 0)
			hs(12, 0)
			hs(12, 1)
			hs(12, 2)
			if tier == "thorough" {
				for ord := 0; ord <= 2; ord++ {
					js = append(js, &Job{Module: "mcap", Harness: "VC10IdxLoadChunk", Params: P("max", 64, "ord", ord), TimeoutS: 1800, Solvers: cv})
					for _, f := range []int{1, 3, 4, 6, 9, 12} {
						if f == 3 && ord == 2 {
							continue // does not finish within the budget (measured)
						}
						hs(f, ord)
					}
				}
			}
			return js
		},
		bounds: map[string]any{
			"quick": map[string]any{"leaf_parsers": "16 entry points (14 Parse*, Message.PopulateFrom, parseAttachmentReader incl. reading the data and both CRC accessors) on 0..64 bytes, all symbolic incl. the length (ParseChannel and ParseMetadata 40: their map loops compare keys at symbolic offsets)",
				"one_lexer_step": "Lexer.Next once from a lexer over 1..40 arbitrary bytes (56 for chunks) whose first byte is constrained to one opcode per job: every opcode 0x00..0x0F and 'any opcode >= 0x10' (one job each; a partition of all first bytes); chunk records with validation on/off and EmitChunks; attachments with a callback, and without one (record exactly filling the input, or claiming more than the input holds - up to 2^64-1); with MaxRecordSize = MaxDecompressedChunkSize = 20 the allocation ceiling is 40 bytes, otherwise 2 GiB; EmitInvalidChunks/ComputeAttachmentCRCs symbolic; per-loop unwinding bound 256",
				"indexed_reader_units": "readRecord on 0..32 arbitrary bytes; the whole Reader API (Info, GetAttachmentReader, GetMetadata, Messages, NextInto x4) on a real written file in which ONE field is replaced by an arbitrary 64-bit value: summary_offset_start, message_index_length, attachment-index length, the chunk record's length, chunk_length, the length of the last record inside a chunk"},
			"thorough": map[string]any{"leaf_parsers": "0..128 bytes", "one_lexer_step": "56/72 bytes", "indexed_reader_units": "indexedMessageIterator.loadChunk over an arbitrary file of 0..64 bytes with every ChunkIndex field symbolic, then the pending messages yielded, in all three orders (a few slice-bounds queries at symbolic offsets time out on all three solvers and are reported as inconclusive: that is why this unit is not in the quick tier); the hostile fields of the quick tier in all three orders. NOT registered because they do not run clean within the budget (solver timeouts / path explosion, measured): hostile summary_start, chunk_start_offset, attachment and metadata offsets, the chunk's uncompressed_size, the first summary record's length, the first in-chunk record's length; a lexer step inside a chunk with a symbolic remaining count"}},
		assumptions: commonAssumptions,
	}
}

var outsideCommon = []string{"zstd and lz4 chunk compression (third-party code; cut)", "string/payload lengths other than the enumerated classes", "more records than the templates contain"}

func init() {
	checkTable["C01"] = &checkSpec{
		needEnd: true,
		jobs: func(tier string) []*Job {
			var js []*Job
			add := func(tpl, ln, pn, idv, cfg, skip, cs int) {
				to := 600
				if skip < 0 {
					to = 2400 // 256 flag combinations
				}
				js = append(js, &Job{Module: "mcap", Harness: "VC01RoundTrip", Params: P("tpl", tpl, "ln", ln, "pn", pn, "idv", idv, "cfg", cfg, "skip", skip, "cs", cs), TimeoutS: to})
			}
			// longer strings and payloads (lengths are concrete, contents symbolic): offsets and lengths beyond one and two
			// bytes, payloads larger than the chunk size after small ones (T8), attachment larger than io.Copy's buffer
			addLong := func() {
				add(8, 1, 80, 0, 3, 0, 64)
				add(8, 1, 80, 0, 7, 0, 64)
				add(8, 3, 40, 1, 1, 0, 100)
				add(5, 9, 40, 0, 3, 0, 60)
				add(6, 20, 300, 1, 7, 0, 100)
				add(6, 17, 5000, 0, 3, 0, 4096)
				if tier == "thorough" {
					add(1, 300, 70000, 0, 3, 0, 1000)
					add(6, 300, 70000, 0, 2, 0, 1000)
				}
			}
			if tier == "quick" {
				for _, tpl := range []int{1, 5, 6, 7} {
					for _, cfg := range []int{0, 2, 1, 3, 7, 3 | 8, 3 | 16} {
						cs := 1000
						if cfg&1 != 0 && tpl >= 5 {
							cs = 1
						}
						add(tpl, 1, 2, 0, cfg, 0, cs)
					}
					add(tpl, 1, 2, 1, 3, 255, 1000)
				}
				add(0, 1, 0, 0, 3, -1, 1000)
				add(2, 0, 0, 1, 3, 0, 1000)
				add(3, 3, 5, 0, 2, 0, 1000)
				add(4, 3, 0, 0, 1, 0, 1000)
				addLong()
				return js
			}
			addLong()
			for tpl := 0; tpl <= 7; tpl++ {
				for _, lp := range [][2]int{{0, 0}, {1, 2}, {3, 5}} {
					for idv := 0; idv <= 1; idv++ {
						for _, cfg := range []int{0, 2, 1, 3, 5, 7, 3 | 8, 7 | 8, 3 | 16, 0 | 16, 2 | 8} {
							for _, cs := range []int{1, 60, 100000} {
								if cfg&1 == 0 && cs != 1 {
									continue
								}
								skip := 0
								if lp[0] == 1 && idv == 0 {
									skip = -1 // all eight Skip* flags symbolic on the middle length class
								}
								add(tpl, lp[0], lp[1], idv, cfg, skip, cs)
							}
						}
					}
				}
			}
			return js
		},
		bounds: map[string]any{
			"quick":    map[string]any{"templates": "T0-T7 (T1,T5,T6,T7 across 8 option sets; T0,T2,T3,T4 once)", "string_len": "0,1,3; and 9, 17, 20 in the long-length jobs", "payload_len": "0..6; and 40, 80, 300, 5000 in the long-length jobs (T8: two 1-byte messages, then one larger than the chunk size, then another small one)", "messages": "<=4", "channels": "<=2", "symbolic": "every byte of every string/payload, sequence, log/publish/create times, lexer validate flag; Skip* flags symbolic for T0"},
			"thorough": map[string]any{"templates": "T0-T7", "string_len": "0,1,3; long-length jobs 9..300", "payload_len": "0,2,5(+1); long-length jobs 40..70000", "ids": "{1,2} and {65535,0}", "options": "chunked x crc x xor-codec x skipMagic x overrideLibrary (11 combos) x chunk size {1,60,100000}; all 8 Skip* flags symbolic on the middle length class, off elsewhere", "symbolic": "as quick"},
		},
		outside:     outsideCommon,
		assumptions: append([]string{"while known finding C04-K1 is listed: no message log time equals 2^64-1"}, commonAssumptions...),
	}
}

func init() {
	checkTable["C02"] = &checkSpec{
		needEnd: true,
		jobs: func(tier string) []*Job {
			var js []*Job
			idv := 0
			add := func(tpl, ln, pn, cfg, skip, cs, ord int) {
				js = append(js, &Job{Module: "mcap", Harness: "VC02Index", Params: P("tpl", tpl, "ln", ln, "pn", pn, "cfg", cfg, "skip", skip, "cs", cs, "ord", ord, "idv", idv), TimeoutS: 900})
			}
			// schema/channel ids 65535 and 0, and the template with a message larger than the chunk size after small ones
			idv = 1
			add(5, 1, 2, 3, 1000+(1|8|64), 1, 2)
			add(6, 1, 2, 3, 1000+(1|4|8), 1000, 0)
			add(5, 1, 2, 3, 0, 1, 3)
			idv = 0
			add(8, 1, 80, 3, 0, 64, 2)
			add(8, 1, 80, 3, 0, 64, 0)
			if tier == "quick" {
				for _, tpl := range []int{5, 6} {
					for ord := 0; ord <= 3; ord++ {
						add(tpl, 1, 2, 3, 1000+(1|8|64), 1, ord)  // one chunk per message
						add(tpl, 1, 2, 3, 1000+(1|4|8), 1000, ord) // one chunk
					}
					add(tpl, 1, 2, 2, 1000+(16|32|128), 1000, 0) // unchunked
					add(tpl, 1, 2, 3, 1000+(2|8|64), 1, 0)       // statistics optional
				}
				add(7, 1, 2, 3, 1000+(16|32|2), 1000, 0)
				add(1, 1, 2, 1, 1000+(1|8|64|4), 1000, 0)
				return js
			}
			for _, tpl := range []int{0, 1, 2, 5, 6, 7} {
				for ord := 0; ord <= 3; ord++ {
					for _, c := range [][2]int{{3, 1}, {3, 1000}, {1, 60}, {2, 1}, {0, 1}} {
						add(tpl, 1, 2, c[0], -1, c[1], ord)
					}
				}
			}
			return js
		},
		bounds: map[string]any{
			"quick":    map[string]any{"ids": "{1,2}; T5/T6 also with {65535,0}", "templates": "T1,T5,T6,T7, T8 (oversized message after small ones, chunk size 64)", "options": "chunked/unchunked, chunk size 1 and 1000, 3-4 Skip* flags symbolic per job (the index-relevant ones)", "orders": "default, FileOrder, LogTimeOrder, ReverseLogTimeOrder", "symbolic": "all field values, listed flags"},
			"thorough": map[string]any{"templates": "T0,T1,T2,T5,T6,T7", "options": "5 base configurations x all 8 Skip* flags symbolic (256 combinations each)", "orders": "all 4"},
		},
		outside:     outsideCommon,
		assumptions: append([]string{"while known finding C04-K1 is listed: no message log time equals 2^64-1"}, commonAssumptions...),
	}
	checkTable["C03"] = &checkSpec{
		needEnd: true,
		jobs: func(tier string) []*Job {
			var js []*Job
			add := func(n, per, rev int) {
				js = append(js, &Job{Module: "mcap", Harness: "VC03Order", Params: P("n", n, "per", per, "rev", rev), TimeoutS: 1800})
			}
			for rev := 0; rev <= 1; rev++ {
				add(3, 1, rev)
				add(4, 2, rev)
				add(4, 1, rev)
				add(5, 2, rev)
				add(5, 3, rev)
				add(5, 4, rev)
				if rev == 0 || tier == "thorough" {
					// time-ordered read under a symbolic window on 5 messages in 3 chunks (2+2+1): the smallest shape in
					// which the iterator must load MORE than one further chunk before it may yield (harness shared with C20)
					js = append(js, &Job{Module: "mcap", Harness: "VC20Slots", Params: P("n", 5, "per", 2, "ord", 1+rev, "win", 1, "grow", 0), TimeoutS: 1800})
				}
				// long queues with heavy ties (times = symbolic base + small pattern): 14 and 30 messages in one chunk,
				// 26 messages in two overlapping chunks (14+12)
				ties := func(n, per, pat int) {
					js = append(js, &Job{Module: "mcap", Harness: "VC03Ties", Params: P("n", n, "per", per, "pat", pat, "rev", rev), TimeoutS: 1800})
				}
				ties(20, 20, 0)
				ties(26, 14, 3)
				if tier == "thorough" {
					ties(14, 14, 0)
					ties(30, 30, 0)
					ties(30, 30, 2)
					ties(20, 20, 1)
					ties(40, 14, 0)
					add(6, 2, rev)
					add(6, 3, rev)
					add(7, 3, rev)
				}
			}
			return js
		},
		bounds: map[string]any{
			"quick":    map[string]any{"long_queues_with_ties": "20 messages in one chunk and 26 in two overlapping chunks (thorough: up to 40), log times = one symbolic 64-bit base + a concrete small pattern with many equal values; file order among all pairs of equal-time messages of a chunk", "files": "3 messages in 3 chunks; 4 messages in 2 and in 4 chunks; 5 messages in 3 chunks (2+2+1) and in 2 chunks (3+2, 4+1)", "channels": 2, "symbolic": "every log time (full 64 bit), payload bytes", "reads": "each order twice; plus a log-time-ordered read under a symbolic window [s,e) on the 2+2+1 file (sortedness, and exactly the messages inside the window)"},
			"thorough": map[string]any{"files": "as quick + 6 messages (2 or 3 per chunk) and 7 messages (3 per chunk)", "channels": 2, "symbolic": "every log time (full 64 bit)"},
		},
		outside:     append([]string{"more than 7 messages / 4 chunks with independent symbolic times; longer queues (up to 40 pending message indexes) only with times of the form base+pattern", "combination with topic filters is decided in C04 (windows: one shape here, the rest in C04)"}, outsideCommon...),
		assumptions: append([]string{"while known finding C04-K1 is listed: no message log time equals 2^64-1"}, commonAssumptions...),
	}
}

func init() {
	checkTable["C04"] = &checkSpec{
		needEnd: true,
		jobs: func(tier string) []*Job {
			var js []*Job
			add := func(n, per, topics, idx, ord, spell int) {
				if idx == 0 && ord != 0 {
					return
				}
				js = append(js, &Job{Module: "mcap", Harness: "VC04Select", Params: P("n", n, "per", per, "topics", topics, "idx", idx, "ord", ord, "spell", spell, "skip", 0), TimeoutS: 900})
			}
			addskip := func(n, per, topics, ord, spell, skip int) {
				js = append(js, &Job{Module: "mcap", Harness: "VC04Select", Params: P("n", n, "per", per, "topics", topics, "idx", 1, "ord", ord, "spell", spell, "skip", skip), TimeoutS: 900})
			}
			if tier == "quick" {
				for spell := 0; spell <= 8; spell++ {
					add(3, 2, spell%6, 1, spell%3, spell)
					add(3, 2, (spell+1)%6, 0, 0, spell)
				}
				add(4, 2, 3, 1, 1, 0)
				add(4, 2, 1, 1, 2, 4)
				add(3, 1, 5, 1, 2, 1)
				addskip(3, 2, 1, 0, 0, 1) // no message indexes: topic selection must not prune chunks
				addskip(3, 2, 2, 1, 4, 1)
				addskip(3, 2, 5, 2, 5, 1|2)
				return js
			}
			for topics := 0; topics <= 5; topics++ {
				for ord := 0; ord <= 2; ord++ {
					addskip(3, 2, topics, ord, (topics+ord)%9, 1)
					addskip(4, 2, topics, ord, (topics+2*ord)%5, 1|2)
				}
			}
			for _, shape := range [][2]int{{3, 1}, {4, 2}} {
				for topics := 0; topics <= 5; topics++ {
					for idx := 0; idx <= 1; idx++ {
						for ord := 0; ord <= 2; ord++ {
							for spell := 0; spell <= 8; spell++ {
								if shape[0] == 4 && spell >= 5 {
									continue
								}
								add(shape[0], shape[1], topics, idx, ord, spell)
							}
						}
					}
				}
			}
			return js
		},
		bounds: map[string]any{
			"quick":    map[string]any{"files": "3 messages/2 chunks and 4 messages/3 chunks, 3 channels (two share topic a, one has no message)", "symbolic": "all log times, window start and end (64 bit, start<=end)", "enumerated": "9 spellings of the window x topic sets {none,a,b,ab,unknown,a+unknown} x indexed/non-indexed x 3 orders (a diagonal sample of 21 jobs) + 3 jobs on files written without message indexes / statistics"},
			"thorough": map[string]any{"files": "as quick", "enumerated": "the full product: 6 topic sets x indexed/non-indexed x 3 orders x 9 spellings (3-message file), x 5 spellings (4-message file)"},
		},
		outside:     append([]string{"negative arguments to the deprecated int64 options", "windows with start > end (rejected by the API)"}, outsideCommon...),
		assumptions: commonAssumptions,
	}
}

func init() {
	checkTable["C08"] = &checkSpec{
		needEnd: true,
		jobs: func(tier string) []*Job {
			var js []*Job
			add := func(tpl, ln, pn, cfg, skip, cs int) {
				js = append(js, &Job{Module: "mcap", Harness: "VC08Stats", Params: P("tpl", tpl, "ln", ln, "pn", pn, "cfg", cfg, "skip", skip, "cs", cs, "idv", 0), TimeoutS: 900})
			}
			addc := func(n, per, tail, skip int) {
				js = append(js, &Job{Module: "mcap", Harness: "VC08StatsChunks", Params: P("n", n, "per", per, "tail", tail, "skip", skip), TimeoutS: 900})
			}
			if tier == "quick" {
				for _, tpl := range []int{0, 1, 5, 6, 7} {
					add(tpl, 1, 2, 3, 0, 1)
					add(tpl, 1, 2, 3, 1000+(2|8|64), 1000)
					add(tpl, 1, 2, 2, 1000+(4|16|32), 1000)
				}
				// ids 65535 and 0 (the extremes of the id range)
				for _, tpl := range []int{5, 6} {
					js = append(js, &Job{Module: "mcap", Harness: "VC08Stats", Params: P("tpl", tpl, "ln", 1, "pn", 2, "cfg", 3, "skip", 0, "cs", 1, "idv", 1), TimeoutS: 900})
					js = append(js, &Job{Module: "mcap", Harness: "VC08Stats", Params: P("tpl", tpl, "ln", 1, "pn", 2, "cfg", 2, "skip", 0, "cs", 1000, "idv", 1), TimeoutS: 900})
				}
				addc(2, 1, 0, 0)
				addc(3, 1, 0, 0)
				addc(3, 2, 0, 1000+(1|2|64))
				addc(1, 1, 1, 0)
				addc(2, 1, 1, 1)
				addc(2, 2, 1, 0)
				addc(3, 2, 1, 0)
				return js
			}
			for tpl := 0; tpl <= 7; tpl++ {
				for _, c := range [][2]int{{3, 1}, {3, 60}, {3, 100000}, {2, 1}, {1, 1}, {0, 1}} {
					add(tpl, 1, 2, c[0], -1, c[1])
				}
				add(tpl, 3, 5, 3, -1, 1)
				js = append(js, &Job{Module: "mcap", Harness: "VC08Stats", Params: P("tpl", tpl, "ln", 1, "pn", 2, "cfg", 3, "skip", -1, "cs", 1, "idv", 1), TimeoutS: 900})
			}
			for n := 1; n <= 5; n++ {
				for per := 1; per <= 3; per++ {
					for tail := 0; tail <= 1; tail++ {
						addc(n, per, tail, 1000+(1|2|64))
					}
				}
			}
			return js
		},
		bounds: map[string]any{
			"quick":    map[string]any{"ids": "schema/channel ids {1,2}; T5 and T6 also with ids {65535,0}", "templates": "T0,T1,T5,T6,T7 x 3 option sets (chunk size 1 / 1000 / unchunked; 3 Skip* flags symbolic each)", "chunk_files": "1-3 messages, 1-2 per chunk, with/without a trailing chunk that holds only a channel record", "symbolic": "every log time (64 bit), all strings and payload bytes, listed flags"},
			"thorough": map[string]any{"templates": "T0-T7 x 7 option sets, all 8 Skip* flags symbolic", "chunk_files": "1-5 messages x 1-3 per chunk x trailing channel-only chunk"},
		},
		outside:     append([]string{"chunks handed to WriteChunkWithIndexes directly by a caller (the writer's own flush path is what is decided)"}, outsideCommon...),
		assumptions: commonAssumptions,
	}
}

func init() {
	checkTable["C13"] = &checkSpec{
		needEnd: true,
		jobs: func(tier string) []*Job {
			var js []*Job
			add := func(tpl, nk, cfg, skip, cs int) {
				js = append(js, &Job{Module: "mcap", Harness: "VC13MapOrder", Params: P("tpl", tpl, "nk", nk, "cfg", cfg, "skip", skip, "cs", cs), TimeoutS: 1200})
			}
			iso := func(tpl, cfg, cs, mode int) {
				js = append(js, &Job{Module: "mcap", Harness: "VC13Isolation", Params: P("tpl", tpl, "cfg", cfg, "cs", cs, "mode", mode), TimeoutS: 1200})
			}
			iso(6, 3, 60, 0)
			iso(5, 2, 1000, 0)
			iso(6, 3, 1, 1)
			if tier == "thorough" {
				for _, tpl := range []int{1, 5, 6, 7} {
					for _, c := range [][2]int{{3, 1}, {3, 60}, {2, 1000}, {7, 60}} {
						iso(tpl, c[0], c[1], 0)
						iso(tpl, c[0], c[1], 1)
					}
				}
			}
			if tier == "quick" {
				add(0, 3, 3, 0, 1000)
				add(0, 2, 2, 0, 1000)
				add(1, 3, 3, 0, 1000)
				add(2, 2, 3, 0, 1)
				add(2, 2, 2, 0, 1000)
				add(4, 2, 3, 0, 1000)
				add(4, 1, 2, 0, 1000)
				add(5, 2, 3, 0, 1000)
				return js
			}
			for tpl := 0; tpl <= 5; tpl++ {
				for _, nk := range []int{2, 3} {
					for _, c := range [][2]int{{3, 1}, {3, 40}, {3, 1000}, {2, 1000}, {1, 1}} {
						if tpl == 3 && nk == 3 {
							continue
						}
						add(tpl, nk, c[0], 0, c[1])
					}
				}
			}
			return js
		},
		bounds: map[string]any{
			"quick":    map[string]any{"workloads": "5 mixes (channel metadata map / Metadata record / two channels + metadata / schema + three channels over several chunks (thorough) / two schemas + two channels in descending id order / five registered channels of which two carry messages in one chunk)", "map_entries": "2-3 per map, symbolic one-byte keys and values (so equal keys and every key order are included)", "iteration_orders": "every permutation of every range over a map, in the writer and in everything it calls", "options": "chunked (chunk size 1/40/1000) and unchunked, CRC on/off", "instance_isolation": "a second Writer instance (other options, other workload) runs from NewWriter to Close while the first is inside its k-th sink Write, k symbolic over every write of the workload; or the API calls of the two instances alternate; both outputs must equal the outputs of the instances run alone (templates T5/T6; thorough T1,T5,T6,T7 x 4 option sets)"},
			"thorough": map[string]any{"workloads": "as quick x map sizes 2,3 x 5 option sets"},
		},
		outside:     append([]string{"independence from GOMAXPROCS and from preemptive interleavings of goroutines (data races between instructions): the engine has no scheduler model and the code in scope starts no goroutine (zstd, which does, is outside) - NOT decided; what is decided about concurrent instances is isolation under interleavings at sink-write and API-call granularity (instance_isolation)", "maps with more than 3 entries"}, outsideCommon...),
		assumptions: commonAssumptions,
	}
	checkTable["C14"] = &checkSpec{
		needEnd: true,
		jobs: func(tier string) []*Job {
			var js []*Job
			smax := 9
			if tier == "quick" {
				smax = 2
			}
			add := func(tpl, cfg, skip, cs, klo, khi int) {
				js = append(js, &Job{Module: "mcap", Harness: "VC14Sink", Params: P("tpl", tpl, "ln", 1, "pn", 2, "cfg", cfg, "skip", skip, "cs", cs, "klo", klo, "khi", khi, "smax", smax), TimeoutS: 1200})
			}
			adda := func(dn, mode, cfg int) {
				js = append(js, &Job{Module: "mcap", Harness: "VC14AttachmentSource", Params: P("dn", dn, "mode", mode, "cfg", cfg), TimeoutS: 600})
			}
			if tier == "quick" {
				for _, tc := range [][3]int{{5, 3, 1}, {6, 2, 1000}, {6, 3, 1}, {5, 3, 1000}} {
					for klo := 0; klo < 64; klo += 8 {
						add(tc[0], tc[1], 0, tc[2], klo, klo+8)
					}
				}
				adda(3, 0, 2)
				adda(3, 1, 2)
				adda(0, 1, 3)
				return js
			}
			for _, tpl := range []int{1, 3, 4, 5, 6, 7} {
				for _, c := range [][2]int{{3, 1}, {3, 1000}, {2, 1000}, {1, 60}, {0, 1000}, {7, 1}} {
					for klo := 0; klo < 96; klo += 8 {
						add(tpl, c[0], 0, c[1], klo, klo+8)
					}
				}
			}
			for _, dn := range []int{0, 1, 3, 8} {
				for mode := 0; mode <= 1; mode++ {
					for cfg := 0; cfg <= 3; cfg++ {
						adda(dn, mode, cfg)
					}
				}
			}
			return js
		},
		bounds: map[string]any{
			"quick":    map[string]any{"workloads": "T5 chunked (one chunk per message; one chunk holding two channels' messages), T6 chunked and unchunked, CRC on", "fault": "index k of the failing destination write symbolic over 0..63 (8 cells of 8; every workload makes fewer than 64 writes - beyond the last write the run must equal the reference), bytes accepted by the failing write symbolic 0..min(len,2) (thorough: 9, every split of a record header), sticky or transient symbolic", "attachment_source": "3-byte attachment: source error after symbolic j<=3 bytes; declared size symbolic != true size (64 bit)"},
			"thorough": map[string]any{"workloads": "T1,T3,T4,T5,T6,T7 x 6 option sets", "fault": "k over 0..95 in cells of 8", "attachment_source": "data length 0,1,3,8 x 4 option sets"},
		},
		outside:     append([]string{"a destination that returns a short count with a nil error (violates io.Writer's contract)", "zstd/lz4 compressors' own buffering"}, outsideCommon...),
		assumptions: commonAssumptions,
	}
}

func init() {
	checkTable["C09"] = &checkSpec{
		needEnd: true,
		jobs: func(tier string) []*Job {
			var js []*Job
			sized := 0
			add := func(tpl, cfg, cs, validate, max int) {
				for lo := 0; lo < max; lo += 16 {
					for rd := 0; rd <= 1; rd++ {
						if rd == 1 && cfg&4 != 0 {
							continue // the Reader API offers no way to pass a custom decompressor
						}
						js = append(js, &Job{Module: "mcap", Harness: "VC09Cut", Params: P("tpl", tpl, "cfg", cfg, "cs", cs, "validate", validate, "lo", lo, "hi", lo+16, "rd", rd, "sized", sized), TimeoutS: 1200})
					}
				}
			}
			// the same cut through a source that also has Len()/Size() (what bytes.Reader offers)
			sized = 1
			add(5, 3, 1, 0, 512)
			sized = 0
			if tier == "quick" {
				add(5, 3, 1, 1, 512)
				add(6, 2, 1000, 0, 400)
				add(5, 1, 1, 1, 512) // no CRCs in the file, validating lexer
				return js
			}
			for _, tpl := range []int{5, 6, 7} {
				for _, c := range [][3]int{{3, 1, 0}, {3, 1, 1}, {3, 1000, 1}, {2, 1000, 0}, {7, 1, 1}, {1, 60, 1}} {
					add(tpl, c[0], c[1], c[2], 576)
				}
			}
			return js
		},
		bounds: map[string]any{
			"quick":    map[string]any{"files": "T5 chunked (one chunk per message; with CRCs and without, validating lexer) and T6 unchunked (with an attachment and a metadata record)", "cut": "cut position L symbolic, the range 0..len(file)-1 partitioned into cells of 16 bytes (one job per cell; the union is every position)", "symbolic": "L, every field value and byte of the file", "readers": "lexer with attachment callback; non-indexed message iterator", "source_kinds": "a plain Read(+Seek) source; and (T5 chunked, non-validating) a source that also exposes Len()/Size() like bytes.Reader, both symbolic"},
			"thorough": map[string]any{"files": "T5,T6,T7 x 6 option sets (chunk sizes 1/60/1000, CRC on/off, xor codec, validating or not)", "cut": "as quick"},
		},
		outside:     append([]string{"files longer than 576 bytes"}, outsideCommon...),
		assumptions: append([]string{"stored chunk CRCs are non-zero (with the CRC uninterpreted, 0 is otherwise a feasible value and means 'validation not available'; a real CRC-32 is 0 with probability 2^-32)", "ideal checksum: two CRC values are equal exactly when the byte sequences fed are equal (an accidental collision between a truncated chunk and the stored CRC has probability 2^-32)"}, commonAssumptions...),
	}
}

func init() {
	checkTable["C15"] = &checkSpec{
		needEnd: true,
		jobs: func(tier string) []*Job {
			var js []*Job
			frag := func(tpl, cfg, cs, validate, rd, mode int, extra ...any) {
				kv := append([]any{"tpl", tpl, "cfg", cfg, "cs", cs, "validate", validate, "rd", rd, "mode", mode}, extra...)
				js = append(js, &Job{Module: "mcap", Harness: "VC15Frag", Params: P(kv...), TimeoutS: 1200})
			}
			errj := func(tpl, cfg, cs, validate, rd, with, max int) {
				for lo := 0; lo < max; lo += 16 {
					js = append(js, &Job{Module: "mcap", Harness: "VC15Err", Params: P("tpl", tpl, "cfg", cfg, "cs", cs, "validate", validate, "rd", rd, "lo", lo, "hi", lo+16, "with", with), TimeoutS: 1200})
				}
			}
			type fc struct{ tpl, cfg, cs, validate int }
			files := []fc{{5, 3, 1, 1}}
			rds := []int{0, 1, 2, 3}
			jmax, kmax := 96, 9
			if tier == "thorough" {
				files = []fc{{5, 3, 1, 1}, {6, 2, 1000, 0}}
				rds = []int{0, 1, 2, 3, 4}
				jmax = 112
			}
			if tier == "quick" {
				// a file with an attachment and a metadata record, lexer only: fragmentation inside the attachment's
				// fields, data and CRC
				f := fc{6, 2, 1000, 0}
				for jlo := 0; jlo < 64; jlo += 8 {
					frag(f.tpl, f.cfg, f.cs, f.validate, 0, 0, "jlo", jlo, "jhi", jlo+8, "kmax", kmax)
				}
				for _, mr := range []int{1, 2, 3} {
					frag(f.tpl, f.cfg, f.cs, f.validate, 0, 1, "mr", mr)
				}
				frag(f.tpl, f.cfg, f.cs, f.validate, 0, 2, "mr", 0)
			}
			for _, f := range files {
				for _, rd := range rds {
					if f.cfg&1 == 0 && rd >= 3 {
						continue // an unchunked file has no index: time-ordered reads are refused by design
					}
					if f.cfg&4 != 0 && rd != 0 {
						continue // the Reader API offers no way to pass a custom decompressor
					}
					for jlo := 0; jlo < jmax; jlo += 8 {
						frag(f.tpl, f.cfg, f.cs, f.validate, rd, 0, "jlo", jlo, "jhi", jlo+8, "kmax", kmax)
					}
					for _, mr := range []int{1, 2, 5} {
						frag(f.tpl, f.cfg, f.cs, f.validate, rd, 1, "mr", mr)
					}
					frag(f.tpl, f.cfg, f.cs, f.validate, rd, 2, "mr", 0)
					frag(f.tpl, f.cfg, f.cs, f.validate, rd, 2, "mr", 3)
					if rd >= 2 {
						js = append(js, &Job{Module: "mcap", Harness: "VC15Seek", Params: P("tpl", f.tpl, "cfg", f.cfg, "cs", f.cs, "ord", rd-2, "skip", 0, "slo", 0, "shi", 16), TimeoutS: 900})
						if rd == 2 {
							// summaries that cannot drive an indexed read: Messages() seeks back and scans
							js = append(js, &Job{Module: "mcap", Harness: "VC15Seek", Params: P("tpl", f.tpl, "cfg", f.cfg, "cs", f.cs, "ord", 0, "skip", 64, "slo", 0, "shi", 16), TimeoutS: 900})
							js = append(js, &Job{Module: "mcap", Harness: "VC15Seek", Params: P("tpl", f.tpl, "cfg", f.cfg&^1, "cs", f.cs, "ord", 0, "skip", 0, "slo", 0, "shi", 16), TimeoutS: 900})
						}
					}
					if tier == "quick" {
						if rd >= 3 {
							continue // the unreadable-byte model under a time-ordered read multiplies by the chunk orders: thorough tier
						}
						errj(f.tpl, f.cfg, f.cs, f.validate, rd, rd%2, 512)
					} else {
						errj(f.tpl, f.cfg, f.cs, f.validate, rd, rd%2, 576)
						if f.tpl == 5 && f.cfg == 3 {
							errj(f.tpl, f.cfg, f.cs, f.validate, rd, 1-rd%2, 576)
						}
					}
				}
			}
			return js
		},
		bounds: map[string]any{
			"quick":    map[string]any{"file": "T5 chunked (one chunk per message, CRC on), validating lexer; for the lexer also T6 unchunked (attachment read through the callback incl. its stored CRC, metadata)", "readers": "lexer; non-indexed iterator; indexed iterator in file order and in log-time order", "fragmentation": "one short read at symbolic read-call index J (0..95, cells of 8; beyond the last call the run is the plain one) returning symbolic K bytes (1..9: every split of a 9-byte record header); every read limited to 1, 2, 5 bytes; final bytes delivered together with io.EOF", "io_error": "error at symbolic byte position E (cells of 16 over the whole file), delivered on its own call or together with the last good bytes: sticky for the sequential readers; for index-based reads (file order; time orders in the thorough tier) byte E alone is unreadable (reads that do not touch it succeed, and a read that never needs it must return everything); for Messages() with the index (and on files without chunk indexes / without chunks, where it seeks back and scans) also a failure of the Seek call with symbolic index S in 0..15 (more Seek calls than the reads make)", "symbolic": "J, K, E, every field value and byte of the file"},
			"thorough": map[string]any{"files": "T5 (one chunk per message; validating lexer), T6 unchunked (sequential readers and file-order Messages()); the xor-codec file was dropped: its short-read jobs do not finish within the budget", "readers": "as quick + reverse log-time order", "fragmentation": "J over 0..111", "io_error": "both delivery forms at every position of the first file, one form elsewhere"},
		},
		outside:     append([]string{"a one-shot (non-sticky) error delivered together with the last bytes a ReadFull needs: io.ReadAtLeast drops it by specification", "more than one short read per run (the every-read-limited schedules cover repeated fragmentation)"}, outsideCommon...),
		assumptions: append([]string{"stored chunk CRCs are non-zero (with the CRC uninterpreted, 0 is otherwise a feasible value and means 'validation not available'; a real CRC-32 is 0 with probability 2^-32)"}, commonAssumptions...),
	}
}

func init() {
	checkTable["C07"] = &checkSpec{
		needEnd: true,
		jobs: func(tier string) []*Job {
			var js []*Job
			ch := func(tpl, cfg, cs, chunk int) {
				js = append(js, &Job{Module: "mcap", Harness: "VC07Chunk", Params: P("tpl", tpl, "cfg", cfg, "cs", cs, "chunk", chunk), TimeoutS: 900})
			}
			at := func(ln, dn, cfg, part int) {
				js = append(js, &Job{Module: "mcap", Harness: "VC07Attachment", Params: P("ln", ln, "dn", dn, "cfg", cfg, "part", part), TimeoutS: 600})
			}
			tpls := []int{5, 6}
			if tier == "thorough" {
				tpls = []int{1, 2, 5, 6}
			}
			for _, tpl := range tpls {
				for _, cfg := range []int{3, 7, 7 | 32} {
					for c := 0; c < 4; c++ {
						ch(tpl, cfg, 1, c)
					}
					ch(tpl, cfg, 1000, 0)
					if tier == "thorough" {
						ch(tpl, cfg, 60, 0)
						ch(tpl, cfg, 60, 1)
					}
				}
			}
			for part := 0; part <= 3; part++ {
				at(1, 3, 2, part)
				at(1, 3, 3, part)
				if tier == "thorough" {
					at(3, 8, 2, part)
					if part != 2 {
						at(0, 1, 2, part) // empty name: nothing to damage in part 2
					}
					if part != 1 {
						at(1, 0, 3, part) // empty data: nothing to damage in part 1
					}
				}
			}
			return js
		},
		bounds: map[string]any{
			"quick":    map[string]any{"chunk_files": "T5, T6 with CRC on: one chunk per message (each of the first 4 chunks damaged in turn) and one chunk for everything; none and xor codec (registered under a 3-byte and under a 22-byte compression name)", "damage": "EVERY byte of the damaged chunk's stored payload replaced by a fresh symbolic byte at once (assumed not identical to the original): covers all bit flips, overwrites and same-length swaps inside the payload", "lexer": "ValidateChunkCRCs on, EmitInvalidChunks symbolic", "attachments": "name/media type 1 byte, data 3 bytes; times, name, data or all CRC-covered value bytes replaced by symbolic bytes; ComputeAttachmentCRCs on"},
			"thorough": map[string]any{"chunk_files": "T1,T2,T5,T6; chunk sizes 1/60/1000", "attachments": "three length classes"},
		},
		outside:     append([]string{"alterations that change a stored length field (payload length, string lengths)", "damage to chunk header fields other than the payload"}, outsideCommon...),
		assumptions: append([]string{"ideal checksum: equality of two CRC values is taken to hold exactly when the byte sequences fed are equal (true for CRC-32 for every burst up to 32 bits; probability 1-2^-32 otherwise)", "the stored chunk CRC is non-zero (zero means 'not available' and switches validation off by specification)"}, commonAssumptions...),
	}
}

func init() {
	checkTable["C20"] = &checkSpec{
		needEnd: true,
		jobs: func(tier string) []*Job {
			var js []*Job
			slots := func(n, per, ord int) {
				js = append(js, &Job{Module: "mcap", Harness: "VC20Slots", Params: P("n", n, "per", per, "ord", ord, "win", 0, "grow", 0), TimeoutS: 2400})
				if n <= 4 || (tier == "thorough" && n <= 5) {
					js = append(js, &Job{Module: "mcap", Harness: "VC20Slots", Params: P("n", n, "per", per, "ord", ord, "win", 1, "grow", 0), TimeoutS: 2400})
				}
			}
			for ord := 0; ord <= 2; ord++ {
				// chunk sizes growing along the file (a slot must be reused even when the next chunk is larger)
				js = append(js, &Job{Module: "mcap", Harness: "VC20Slots", Params: P("n", 3, "per", 1, "ord", ord, "win", 0, "grow", 1), TimeoutS: 2400})
			}
			for ord := 1; ord <= 2; ord++ {
				if tier == "quick" {
					continue // (this shape runs under C03's quick tier)
				}
				// three chunks, two of two messages, under a window: the smallest shape in which loading ONE more chunk
				// before yielding is not enough
				js = append(js, &Job{Module: "mcap", Harness: "VC20Slots", Params: P("n", 5, "per", 2, "ord", ord, "win", 1, "grow", 0), TimeoutS: 2400})
			}
			lexer := func(tpl, cs, validate int) {
				js = append(js, &Job{Module: "mcap", Harness: "VC20Lexer", Params: P("tpl", tpl, "cs", cs, "validate", validate), TimeoutS: 600})
			}
			att := func(size, lim, cfg, crc int) {
				js = append(js, &Job{Module: "mcap", Harness: "VC20Attachment", Params: P("size", size, "lim", lim, "cfg", cfg, "crc", crc, "cb", 1), TimeoutS: 900})
				js = append(js, &Job{Module: "mcap", Harness: "VC20Attachment", Params: P("size", size, "lim", lim, "cfg", cfg, "crc", crc, "cb", 0), TimeoutS: 900})
			}
			for ord := 0; ord <= 2; ord++ {
				slots(3, 1, ord)
				slots(4, 2, ord)
				slots(4, 1, ord)
				if tier == "thorough" {
					slots(5, 2, ord)
					slots(5, 1, ord)
					slots(6, 2, ord)
					slots(6, 3, ord)
				}
			}
			for _, tpl := range []int{5, 6} {
				for _, cs := range []int{1, 60, 1000} {
					lexer(tpl, cs, 1)
					lexer(tpl, cs, 0)
				}
			}
			att(70000, 33000, 2, 1)
			att(33000, 32900, 3, 0)
			if tier == "thorough" {
				att(200000, 33000, 3, 1)
				att(100000, 33000, 2, 0)
				att(1, 32800, 2, 1)
			}
			return js
		},
		bounds: map[string]any{
			"quick":    map[string]any{"index_based": "files of 3 messages/3 chunks (also with chunk sizes growing along the file), 4 messages/2 chunks, 4 messages/4 chunks (thorough: 5 messages/3 chunks windowed); every log time symbolic (64 bit): every overlap/nesting/backwards arrangement of the chunk time ranges; the bound (overlap depth, computed from the symbolic chunk ranges; 1 in file order) is asserted after every NextInto, in all three orders, without and with a symbolic time window [s,e); the windowed reads are also checked for order and for returning exactly the messages inside the window", "sequential": "T5/T6 at three chunk sizes: single chunk buffer, replaced only by a larger one, <= 2x largest chunk, none when not validating", "attachments": "70000 and 33000 data bytes (symbolic content) through WriteAttachment and the lexer (with a callback reading in 4 KiB pieces, and with no callback, also under the non-indexed iterator) with a ceiling of 33000/32900 bytes on any single library allocation (io.Copy's fixed 32 KiB buffer is the largest)"},
			"thorough": map[string]any{"index_based": "up to 6 messages / 5 chunks", "attachments": "up to 200000 bytes"},
		},
		outside:     append([]string{"more than 6 chunks (the property mentions 1000 chunks and overlap depth 8: far outside)", "attachment sizes are enumerated, not symbolic", "process-level memory (RSS); zstd/lz4 decoder buffers"}, outsideCommon...),
		assumptions: commonAssumptions,
	}
}

func specJobs(tier string, crc int) []*Job {
	var js []*Job
	add := func(tpl, ln, pn, idv, cfg, skip, cs int) {
		js = append(js, &Job{Module: "mcap", Harness: "VC05Layout", Params: P("tpl", tpl, "ln", ln, "pn", pn, "idv", idv, "cfg", cfg, "skip", skip, "cs", cs, "crc", crc), TimeoutS: 1800})
	}
	addc := func(n, per, tail, cfg, skip int) {
		js = append(js, &Job{Module: "mcap", Harness: "VC05Chunks", Params: P("n", n, "per", per, "tail", tail, "cfg", cfg, "skip", skip, "crc", crc), TimeoutS: 900})
	}
	// longer records: offsets/lengths above 255 and above 65535, a message larger than the chunk size after small ones
	add(8, 1, 80, 0, 3, 0, 64)
	add(6, 20, 300, 0, 3, 0, 100)
	add(5, 9, 40, 1, 3, 0, 1)
	if tier == "thorough" {
		add(6, 300, 70000, 0, 3, 0, 1000)
		add(8, 3, 300, 0, 7, 0, 200)
	}
	if tier == "quick" {
		for _, tpl := range []int{0, 1, 5, 6, 7} {
			add(tpl, 1, 2, 0, 3, 0, 1)
			add(tpl, 1, 2, 0, 2, 1000+(16|32|128), 1000)
			add(tpl, 1, 2, 1, 1, 1000+(1|64|128), 1000)
		}
		add(0, 1, 2, 0, 3, -1, 1000)
		add(3, 3, 5, 0, 7, 0, 1)
		add(6, 0, 0, 0, 3, 0, 60)
		add(2, 1, 2, 1, 3|8, 0, 1)
		addc(3, 1, 0, 2, 0)
		addc(3, 2, 1, 2, 1000+(1|64))
		addc(4, 2, 0, 0, 0)
		addc(2, 2, 1, 6, 0)
		return js
	}
	for tpl := 0; tpl <= 7; tpl++ {
		for _, lp := range [][2]int{{0, 0}, {1, 2}, {3, 5}} {
			for _, c := range [][2]int{{3, 1}, {3, 60}, {3, 100000}, {2, 1}, {1, 1}, {0, 1}, {7, 1}, {3 | 8, 1}} {
				skip := 0
				if lp[0] == 1 {
					skip = -1
				}
				add(tpl, lp[0], lp[1], 0, c[0], skip, c[1])
			}
		}
		add(tpl, 1, 2, 1, 3, 0, 1)
	}
	for n := 1; n <= 5; n++ {
		for per := 1; per <= 3; per++ {
			for tail := 0; tail <= 1; tail++ {
				addc(n, per, tail, 2, 1000+(1|64))
				addc(n, per, tail, 4, 0)
			}
		}
	}
	return js
}

func init() {
	specBounds := map[string]any{
		"quick":    map[string]any{"templates": "T0,T1,T5,T6,T7 under 3 option sets (one chunk per message / one chunk / unchunked; 3 Skip* flags symbolic each), T0 with all 8 Skip* flags symbolic, T3 with xor codec, T6 at chunk size 60, T2 with SkipMagic", "long_records": "T8 (two small messages, one of 80 bytes with chunk size 64, one small), T6 with 20-byte strings and 300-byte payloads (offsets above 255), T5 with 9-byte strings; thorough: 300-byte strings and 70000-byte payloads (offsets above 65535)", "chunk_files": "2-4 messages on two channels, 1-2 per chunk, all log/publish times symbolic, with/without a chunk that holds only a channel record", "symbolic": "every string/payload byte, times, sequence numbers, the listed flags", "oracle": "a decoder written from the specification only (zz_verif_spec.go), executed symbolically on the writer's real output"},
		"thorough": map[string]any{"templates": "T0-T7 x 3 length classes x 8 option sets; all 8 Skip* flags symbolic at the middle length class", "chunk_files": "1-5 messages x 1-3 per chunk x trailing channel-only chunk, none and xor codec"},
	}
	checkTable["C05"] = &checkSpec{needEnd: true, jobs: func(tier string) []*Job { return specJobs(tier, 0) }, bounds: specBounds, outside: outsideCommon, assumptions: commonAssumptions}
	checkTable["C06"] = &checkSpec{needEnd: true, jobs: func(tier string) []*Job { return specJobs(tier, 1) }, bounds: specBounds, outside: outsideCommon,
		assumptions: append([]string{"CRC-32 is an uninterpreted fold (crc_step per byte, crc(empty)=0): stored and recomputed values are equal under every interpretation exactly when the writer fed the specified bytes in order; solver counterexamples are replayed with the real CRC-32"}, commonAssumptions...)}
}

func init() {
	checkTable["C12"] = &checkSpec{
		needEnd: true,
		jobs: func(tier string) []*Job {
			var js []*Job
			add := func(n, att, part, xor, defs, perm, opt, attAfter, validate, self int) {
				js = append(js, &Job{Module: "mcap", Harness: "VC12Layout", Params: P("n", n, "att", att, "part", part, "xor", xor, "defs", defs, "perm", perm, "opt", opt, "attAfter", attAfter, "validate", validate, "self", self), TimeoutS: 1200})
			}
			if tier == "quick" {
				for perm := 0; perm < 12; perm++ {
					add(3, 1, 1+perm%4, 0, perm%3, perm, 511, perm%2, perm%2, 1)
				}
				for bit := 0; bit < 9; bit++ {
					add(3, 1, 2, 0, 0, bit, 511&^(1<<bit), 1, 1, 1)
				}
				add(3, 1, 0, 0, 0, 0, 511, 1, 0, 1)
				add(3, 0, 0, 0, 0, 3, 0, 0, 0, 1)
				add(3, 1, 2, 5, 0, 2, 511, 0, 1, 1)
				add(4, 1, 5, 0, 2, 4, 511, 2, 1, 1)
				add(4, 0, 5, 0, 1, 7, 256|128|64, 0, 0, 1)
				return js
			}
			for perm := 0; perm < 12; perm++ {
				for part := 0; part <= 5; part++ {
					for defs := 0; defs <= 2; defs++ {
						add(4, 1, part, 0, defs, perm, 511, (perm+part)%3, part%2, 1)
					}
				}
			}
			for opt := 0; opt < 512; opt += 7 {
				add(3, 1, 2, 0, opt%3, opt%12, opt, 1, 1, 1)
				add(3, 1, 1, 0, opt%3, (opt+5)%12, opt|256|128, 0, 0, 1)
			}
			for xor := 1; xor < 8; xor++ {
				add(3, 1, 2, xor, 0, xor, 511, 1, 1, 1)
			}
			return js
		},
		bounds: map[string]any{
			"quick":    map[string]any{"content": "schema, 2 channels (one schemaless; symbolic strings and a metadata map), 3-4 messages with symbolic times/payloads, optionally an attachment and a metadata record", "layouts": "produced by an encoder written from the specification only: chunk partitions (unchunked / one chunk / one message per chunk / 1+rest / rest+1 / 2+rest), none and xor per chunk, definitions before first use / all up front / repeated in every chunk, 12 orders of the 6 summary groups, each optional part (message indexes, statistics, summary offsets, attachment index, metadata index, CRCs, repeated schemas, repeated channels, chunk indexes) dropped in turn - a diagonal of 26 layouts", "readers": "lexer, non-indexed iterator, Info, GetAttachmentReader/GetMetadata through index entries, Messages() in file, log-time and reverse order", "self_check": "every encoder output is also run through the specification decoder (grammar, pointers, CRCs)"},
			"thorough": map[string]any{"layouts": "12 group orders x 6 partitions x 3 definition placements; 74 x 2 subsets of optional parts; all xor masks"},
		},
		outside:     append([]string{"zstd/lz4 chunks (only the harness xor codec stands for 'another compression', and only through the lexer: the Reader API takes no decompressor)", "where a layout lacks repeated schemas/channels or chunk indexes, an index-based read may refuse with an error (C02's rule); for every other optional part equality is required"}, outsideCommon...),
		assumptions: commonAssumptions,
	}
	checkTable["C11"] = &checkSpec{
		needEnd: true,
		jobs: func(tier string) []*Job {
			var js []*Job
			add := func(n, part, defs, perm, opt, unk, ulen, pad, validate int) {
				js = append(js, &Job{Module: "mcap", Harness: "VC11Unknown", Params: P("n", n, "att", 1, "part", part, "defs", defs, "perm", perm, "opt", opt, "attAfter", 1, "validate", validate, "unk", unk, "ulen", ulen, "pad", pad), TimeoutS: 1200})
			}
			parts := []int{2}
			if tier == "thorough" {
				parts = []int{1, 2, 3}
			}
			for _, part := range parts {
				for unk := 1; unk <= 8; unk++ {
					add(3, part, unk%3, unk, 511, unk, 3, 0, unk%2)
					add(3, part, 0, 0, 511, unk, 0, 0, 1)
					if tier == "thorough" {
						add(3, part, 1, unk+3, 511, unk, 5, 0, 0)
						add(3, part, 2, unk, 511, unk, 1, 2, 1)
					}
				}
				add(3, part, 0, 0, 511, 0, 0, 1, 1)
				add(3, part, 1, 4, 511, 0, 0, 3, 0)
				add(3, part, 2, 2, 511, 6, 2, 2, 1)
				add(3, part, 0, 0, 511, 0, 0, 10, 1) // a whole extra "entry" after count-prefixed lists
				add(3, part, 1, 5, 511, 0, 0, 20, 0)
			}
			for _, unk := range []int{1, 5, 6, 7, 8} {
				add(3, 0, 0, unk, 511, unk, 3, 0, 0)
			}
			add(3, 0, 0, 0, 511, 0, 0, 3, 0)
			return js
		},
		bounds: map[string]any{
			"quick":    map[string]any{"content": "as C12 (3 messages, attachment, metadata)", "unknown_record": "opcode symbolic over 0x10..0xFF, body of 0 or 3 symbolic bytes, inserted at each of 8 position classes: after the header, at the start and at the end of a chunk's records, between a chunk and its message indexes, right before DataEnd, at the start of the summary, between two summary groups, after the summary offsets", "appended_fields": "1, 3, 10 and 20 symbolic bytes appended to every extensible record (all but message, chunk, data end, footer) with all offsets recomputed", "layouts": "one message per chunk (thorough: 3 partitions) and unchunked", "oracle": "the logical content itself: every reader must return exactly it"},
			"thorough": map[string]any{"unknown_record": "bodies 0,1,3,5; combined with padding"},
		},
		outside:     append([]string{"opcodes 0x10..0x7F are 'reserved for future use' and 0x80..0xFF private: both are unknown to the library and both are covered; opcode 0x00 is invalid by specification and not inserted", "bytes appended to message, chunk, data end and footer records (not extensible by specification)"}, outsideCommon...),
		assumptions: commonAssumptions,
	}
}

func init() {
	checkTable["C18"] = &checkSpec{
		needEnd: true,
		jobs: func(tier string) []*Job {
			var js []*Job
			bag := func(shape, chunked, mchunk int) {
				js = append(js, &Job{Module: "ros", Harness: "VC18Bag", Params: P("shape", shape, "chunked", chunked, "mchunk", mchunk), TimeoutS: 900})
			}
			rob := func(mode, max, hn, dn int) {
				js = append(js, &Job{Module: "ros", Harness: "VC18Robust", Params: P("mode", mode, "max", max, "hn", hn, "dn", dn), TimeoutS: 1200})
			}
			hlp := func(fn, max int) {
				js = append(js, &Job{Module: "ros", Harness: "VC18Helpers", Params: P("fn", fn, "max", max), TimeoutS: 1200})
			}
			if tier == "thorough" {
				// one message larger than the converter's initial 1 MiB record buffers
				js = append(js, &Job{Module: "ros", Harness: "VC18Bag", Params: P("shape", 3, "chunked", 0, "mchunk", 0, "big", 1048577), TimeoutS: 3000})
			}
			js = append(js, &Job{Module: "ros", Harness: "VC18Bag", Params: P("shape", 3, "chunked", 1, "mchunk", 1, "big", 3000), TimeoutS: 900})
			for shape := 0; shape <= 2; shape++ {
				for c := 0; c <= 1; c++ {
					bag(shape, c, 1-c)
					if tier == "thorough" {
						bag(shape, c, c)
					}
				}
			}
			rob(0, 16, 0, 0)
			rob(1, 14, 0, 0)
			rob(2, 0, 16, 8)
			rob(2, 0, 9, 4)
			rob(2, 0, 4, 0)
			hlp(0, 16)
			hlp(1, 16)
			if tier == "thorough" {
				rob(0, 24, 0, 0)
				rob(1, 18, 0, 0)
				rob(2, 0, 20, 4)
				rob(2, 0, 12, 16)
				hlp(0, 20)
				hlp(1, 20)
			}
			return js
		},
		bounds: map[string]any{
			"quick":    map[string]any{"functional": "bags built by a harness-side encoder (from the bag v2.0 format): 1 connection + 1 message; 2 connections + 3 interleaved messages; 2 connections with a repeated connection record + 2 messages; records at top level or inside an uncompressed bag chunk followed by index-data and chunk-info records; MCAP output chunked or not. Symbolic: connection ids (32 bit, so > 65535 is included), topics (for connections with a caller id the topic field of the connection data is its own symbolic string, as for a remapped topic), types, md5, definitions, caller id, secs/nsecs (32 bit each), payload bytes", "robustness": "Bag2MCAP on: up to 16 arbitrary bytes; the magic + up to 14 arbitrary bytes; the magic + one correctly framed record with 4-16 arbitrary header bytes and 0-8 data bytes; extractHeaderValue and headerToMap on up to 16 arbitrary bytes (length symbolic). No panic, no process exit", "oracle": "the real mcap lexer/parsers decode the output (their exactness is C01/C05's subject)"},
			"thorough": map[string]any{"robustness": "up to 24/18 arbitrary bytes; 20-byte headers; helpers up to 20 bytes"},
		},
		outside:     []string{"THE WHOLE ROS 2 db3 HALF of the property (database/sql + cgo SQLite + file-system schema lookup: behind FFI/OS, cannot be encoded) - not decided", "lz4 and bz2 bag chunks (third-party decoders; cut)", "memory requested for oversized header/data length fields (not part of C18's statement)", "bags with more than 2 connections / 3 messages"},
		assumptions: commonAssumptions,
	}
	checkTable["C19"] = &checkSpec{
		needEnd: true,
		jobs: func(tier string) []*Job {
			var js []*Job
			max := 6
			if tier == "thorough" {
				max = 8
			}
			js = append(js, &Job{Module: "ros1msg", Harness: "VC19ArrayType", Params: P("max", max), TimeoutS: 1800})
			js = append(js, &Job{Module: "ros1msg", Harness: "VC19Resolve", Params: P("k", 11, "comments", 0, "twice", 0, "pkgs", 0), TimeoutS: 1800})
			js = append(js, &Job{Module: "ros1msg", Harness: "VC19Resolve", Params: P("k", 11, "comments", 1, "twice", 1, "pkgs", 0), TimeoutS: 1800})
			// two packages defining the same short type name (A means p/A in the root and q/A inside q/D): 8-entry sub-menu
			js = append(js, &Job{Module: "ros1msg", Harness: "VC19Resolve", Params: P("k", 8, "comments", 0, "twice", 0, "pkgs", 1), TimeoutS: 1800})
			return js
		},
		bounds: map[string]any{
			"quick":    map[string]any{"array_suffix_kernel": "parseArrayType on every string of up to 6 bytes (bytes and length symbolic): no panic, and its result equals the specification (first-bracket positions, empty/decimal/other size)", "resolver": "ParseMessageDefinition on generated definitions: a root and two dependent types p/A, p/B (+ std_msgs/Header), each with one field whose type is a symbolic selector over an 11-entry menu (primitive, unqualified/qualified nested, Header, variable and fixed arrays of primitives and records, a missing type) case-split by the solver: 1331 definitions incl. every self- and mutual reference; with and without comment/constant/blank lines (comments containing '=' and '#'), and with the root's field type used twice (second field separated by space+tab). a third job adds a package q whose type D has a field of the unqualified type A (= q/A, different from p/A) and gives the root q/D fields before and after its selected field (512 definitions). Expected tree computed by an independent resolver; missing types and cycles must give an error; recursion beyond the unwinding bound (200 calls) is a violation", "regexp": "the field regexp is compiled and matched natively on the (concrete, per path) line text"},
			"thorough": map[string]any{"array_suffix_kernel": "up to 8 bytes"},
		},
		outside:     []string{"definition TEXT is generated from selectors, not arbitrary bytes: regexp matching, strings.Split/TrimSpace over symbolic text are out of reach (rune loops over input-sized text fork on every byte)", "more than four dependent types, more than one selected field per type", "stack/time bounds on adversarial non-cyclic inputs (deep but finite nesting)"},
		assumptions: append([]string{"regexp.MustCompile/FindStringSubmatch are executed natively by the engine on concrete strings (Go's own regexp package is trusted)"}, commonAssumptions...),
	}
}
