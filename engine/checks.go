package main

import "sort"

type checkSpec struct {
	jobs        func(tier string) []*Job
	bounds      map[string]any // per tier
	outside     []string
	assumptions []string
	needEnd     bool
}

var checkTable = map[string]*checkSpec{}

func checkIDs() []string {
	var ids []string
	for k := range checkTable {
		ids = append(ids, k)
	}
	sort.Strings(ids)
	return ids
}

func P(kv ...any) map[string]int64 {
	m := map[string]int64{}
	for i := 0; i+1 < len(kv); i += 2 {
		switch v := kv[i+1].(type) {
		case int:
			m[kv[i].(string)] = int64(v)
		case int64:
			m[kv[i].(string)] = v
		case bool:
			if v {
				m[kv[i].(string)] = 1
			} else {
				m[kv[i].(string)] = 0
			}
		}
	}
	return m
}

var commonAssumptions = []string{
	"trusted: go/packages+go/ssa lowering (x/tools v0.29.0), the symgo interpreter, z3 4.8.12 / cvc5 1.0 (portfolio; any solver error or unknown = inconclusive)",
	"stubs (DESIGN.md §2.5): fmt.Errorf/Sprintf and errors.New produce opaque errors with wrap chains; errors.Is/As walk the chain calling real Is/Unwrap methods; hash/crc32 is an uninterpreted fold (crc(empty)=0); sort.Slice/SliceStable/Strings are a stable insertion sort calling the real less; sync.Pool/atomics are sequential",
	"zstd/lz4/bzip2 code is outside every claim (paths reaching it are cut and counted)",
	"every solver counterexample is replayed against the natively compiled code before it is reported",
}

func init() {
	checkTable["C10"] = &checkSpec{
		needEnd: false,
		jobs: func(tier string) []*Job {
			var js []*Job
			max := 64
			if tier == "thorough" {
				max = 128
			}
			for fn := 0; fn <= 15; fn++ {
				mx := max
				// the two parsers with a string->string map loop: key comparisons at symbolic offsets are heavy
				if fn == 3 && mx > 48 {
					mx = 48
				}
				if fn == 10 && mx > 40 {
					mx = 40
				}
				js = append(js, &Job{Module: "mcap", Harness: "VC10Parse", Params: P("fn", fn, "max", mx), TimeoutS: 300, Solvers: []string{"cvc5", "z3"}})
			}
			return js
		},
		bounds:      map[string]any{"quick": map[string]any{"leaf_parser_input_bytes": "0..64, all symbolic incl. length"}, "thorough": map[string]any{"leaf_parser_input_bytes": "0..128"}},
		assumptions: commonAssumptions,
	}
}
