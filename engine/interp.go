package main

import (
	"fmt"
	"go/constant"
	"go/token"
	"go/types"
	"os"
	"strings"

	"golang.org/x/tools/go/ssa"
)

// finfo numbers the values of a function once so that frames can use slices instead of maps.
type finfo struct {
	idx map[ssa.Value]int
	n   int
}

var finfos = map[*ssa.Function]*finfo{}

func infoOf(fn *ssa.Function) *finfo {
	if fi, ok := finfos[fn]; ok {
		return fi
	}
	fi := &finfo{idx: map[ssa.Value]int{}}
	add := func(v ssa.Value) {
		if _, ok := fi.idx[v]; !ok {
			fi.idx[v] = fi.n
			fi.n++
		}
	}
	for _, p := range fn.Params {
		add(p)
	}
	for _, p := range fn.FreeVars {
		add(p)
	}
	for _, b := range fn.Blocks {
		for _, in := range b.Instrs {
			if v, ok := in.(ssa.Value); ok {
				add(v)
			}
		}
	}
	finfos[fn] = fi
	return fi
}

type envT struct {
	fi   *finfo
	vals []Value
	set  []bool
}

func (e *envT) put(v ssa.Value, x Value) {
	i := e.fi.idx[v]
	e.vals[i] = x
	e.set[i] = true
}

type frame struct {
	fn     *ssa.Function
	env    envT
	locals []Value
	defers []func()
	prev   *ssa.BasicBlock
	block  *ssa.BasicBlock
	result Value
	caller *frame
	loops  map[int]int
}

// GoPanic is a Go-level panic raised by interpreted code.
type GoPanic struct {
	msg  string
	val  Value
	pos  token.Pos
	fn   string
	kind string
}

func (m *Machine) topFn() string {
	if len(m.stack) == 0 {
		return ""
	}
	return m.stack[len(m.stack)-1]
}

func (m *Machine) newPanic(kind, msg string, pos token.Pos) *GoPanic {
	return &GoPanic{msg: msg, pos: pos, fn: m.topFn(), kind: kind}
}

// PathEnd terminates the current path (infeasible, abort, bound).
type PathEnd struct{ why string }

// CutPath ends a path at a third-party call that is outside every claim (zstd/lz4/bzip2).
type CutPath struct{ why string }

// ExitEvent is a process exit (os.Exit, log.Fatal*) reached by interpreted code.
type ExitEvent struct {
	msg string
	pos token.Pos
	fn  string
}

var curMachine *Machine

type Machine struct {
	loopBound int // 0: none
	prog     *ssa.Program
	pkg      *ssa.Package
	globals  map[*ssa.Global]*Value
	inited   map[*ssa.Package]bool
	ex       *Explorer
	depth    int
	curFn    string
	stack    []string
	steps    int
	objCount int
	maxSteps int
	params   map[string]int64
	concrete map[string]uint64
	onceDone map[*Value]bool
}

var fnNames = map[*ssa.Function]string{}

func fnName(fn *ssa.Function) string {
	if s, ok := fnNames[fn]; ok {
		return s
	}
	s := fn.String()
	fnNames[fn] = s
	return s
}

func (m *Machine) posStr(p token.Pos) string {
	if !p.IsValid() {
		return "?"
	}
	ps := m.prog.Fset.Position(p)
	return fmt.Sprintf("%s:%d", shortFile(ps.Filename), ps.Line)
}
func shortFile(f string) string {
	if i := strings.LastIndex(f, "/"); i >= 0 {
		return f[i+1:]
	}
	return f
}

func (m *Machine) goPanic(fr *frame, pos token.Pos, format string, a ...any) {
	msg := fmt.Sprintf(format, a...)
	kind := "panic"
	switch {
	case strings.Contains(msg, "nil"):
		kind = "nil"
	case strings.Contains(msg, "makeslice"):
		kind = "makeslice"
	}
	panic(m.newPanic(kind, msg, pos))
}

func (m *Machine) global(g *ssa.Global) *Value {
	if p, ok := m.globals[g]; ok {
		return p
	}
	m.initPkg(g.Pkg)
	if p, ok := m.globals[g]; ok {
		return p
	}
	panic("global not initialised: " + g.String())
}

func (m *Machine) initPkg(p *ssa.Package) {
	if m.inited[p] {
		return
	}
	m.inited[p] = true
	for _, mem := range p.Members {
		if g, ok := mem.(*ssa.Global); ok {
			v := zero(g.Type().(*types.Pointer).Elem())
			m.globals[g] = &v
		}
	}
	path := p.Pkg.Path()
	switch {
	case path == "io" || path == "errors" || path == "bytes" || path == "bufio" || path == "encoding/binary" ||
		path == "math/bits" || path == "hash/crc32" || path == "hash" || path == "strings" || path == "sort" || path == "slices" ||
		strings.Contains(path, "foxglove/mcap"):
		if path == "hash/crc32" || path == "sort" || path == "errors" {
			return
		}
		init := p.Func("init")
		m.call(nil, init, nil, token.NoPos)
	}
}

func (m *Machine) get(fr *frame, v ssa.Value) Value {
	switch x := v.(type) {
	case *ssa.Const:
		return m.constVal(x)
	case *ssa.Global:
		p := m.global(x)
		if bo, ok := (*p).(*ByteObj); ok {
			return BPtr{obj: bo}
		}
		return p
	case *ssa.Function:
		return &Closure{fn: x}
	case *ssa.Builtin:
		return x
	}
	if i, ok := fr.env.fi.idx[v]; ok && fr.env.set[i] {
		return fr.env.vals[i]
	}
	panic(fmt.Sprintf("get: no value for %s (%T) in %s", v.Name(), v, fr.fn))
}

func (m *Machine) constVal(c *ssa.Const) Value {
	t := c.Type()
	if c.Value == nil {
		return zero(t)
	}
	switch u := t.Underlying().(type) {
	case *types.Basic:
		switch {
		case u.Info()&types.IsBoolean != 0:
			return Bool(constant.BoolVal(c.Value))
		case u.Info()&types.IsString != 0:
			return m.strConst(constant.StringVal(c.Value))
		case u.Info()&types.IsInteger != 0:
			w, _ := width(t)
			if i, ok := constant.Int64Val(constant.ToInt(c.Value)); ok {
				return BV(w, uint64(i))
			}
			ui, _ := constant.Uint64Val(constant.ToInt(c.Value))
			return BV(w, ui)
		case u.Info()&types.IsFloat != 0:
			f, _ := constant.Float64Val(c.Value)
			return f // concrete float only
		}
	}
	panic("const: unsupported " + c.String())
}

var strConsts = map[string]Str{}

func (m *Machine) strConst(s string) Str {
	if v, ok := strConsts[s]; ok {
		return v
	}
	arr := ArrConst(0)
	for i := 0; i < len(s); i++ {
		arr = Store(arr, I64(int64(i)), BV(8, uint64(s[i])))
	}
	v := Str{arr, i64_0, I64(int64(len(s)))}
	strConsts[s] = v
	return v
}

// ---- control ----

func (m *Machine) call(caller *frame, fn *ssa.Function, args []Value, pos token.Pos) Value {
	return m.callClosure(caller, &Closure{fn: fn}, args, pos)
}

func (m *Machine) callClosure(caller *frame, c *Closure, args []Value, pos token.Pos) Value {
	fn := c.fn
	if fn.Name() == "init" && fn.Synthetic != "" && caller != nil {
		return nil
	}
	if r, ok := m.intrinsic(caller, fn, args, pos); ok {
		return r
	}
	if fn.Blocks == nil {
		panic(&Inconclusive{"unsupported external function " + fn.String() + " from " + fmt.Sprint(m.stack[max(0, len(m.stack)-5):])})
	}
	fname := fnName(fn)
	m.stack = append(m.stack, fname)
	m.ex.funcs[fname] = true
	curMachine = m
	defer func() {
		m.stack = m.stack[:len(m.stack)-1]
		m.curFn = m.topFn()
	}()
	m.depth++
	if m.depth > 200 {
		// call depth beyond the unwinding bound: on inputs of this size that is unbounded recursion (natively a
		// stack overflow, which kills the process). Reported as a violation and confirmed by native replay.
		m.ex.report("unwind", "call depth exceeds the unwinding bound (200): unbounded recursion", m.posStr(pos), fn.String(), m.ex.knownSite("unwind", fn.String()))
		panic(&PathEnd{"unwind"})
	}
	defer func() { m.depth-- }()
	fi := infoOf(fn)
	fr := &frame{fn: fn, env: envT{fi: fi, vals: make([]Value, fi.n), set: make([]bool, fi.n)}, caller: caller}
	for i, p := range fn.Params {
		fr.env.put(p, args[i])
	}
	for i, fv := range fn.FreeVars {
		fr.env.put(fv, c.env[i])
	}
	fr.block = fn.Blocks[0]
	m.curFn = fname
	panicking := true
	defer func() {
		if panicking {
			// run defers on panic (no recover support except via intrinsic flag)
			for i := len(fr.defers) - 1; i >= 0; i-- {
				// deferred functions during panic are skipped in the spike
				_ = i
			}
		}
	}()
	for fr.block != nil {
		m.runBlock(fr)
	}
	panicking = false
	return fr.result
}

func (m *Machine) runBlock(fr *frame) {
	m.runBlockFrom(fr, -1)
}

func (m *Machine) runBlockFrom(fr *frame, skipPhis int) {
	b := fr.block
	if m.loopBound > 0 && fr.prev != nil && fr.prev.Index >= b.Index && !strings.HasPrefix(m.posStr(fr.fn.Pos()), "zz_verif_") {
		// a back edge in library code: count executions of this loop header within this call
		if fr.loops == nil {
			fr.loops = map[int]int{}
		}
		fr.loops[b.Index]++
		if fr.loops[b.Index] > m.loopBound {
			m.ex.report("unwind", fmt.Sprintf("a loop ran more than %d times on an input of bounded size: possible non-termination", m.loopBound), m.posStr(fr.fn.Pos()), fr.fn.String(), m.ex.knownSite("unwind", fr.fn.String()))
			panic(&PathEnd{"unwind"})
		}
	}
	// phis evaluated simultaneously
	var phiVals []Value
	nphi := 0
	for _, in := range b.Instrs {
		phi, ok := in.(*ssa.Phi)
		if !ok {
			break
		}
		nphi++
		if skipPhis >= 0 {
			continue
		}
		for i, p := range b.Preds {
			if p == fr.prev {
				phiVals = append(phiVals, m.get(fr, phi.Edges[i]))
				break
			}
		}
	}
	if skipPhis < 0 {
		for i := 0; i < nphi; i++ {
			fr.env.put(b.Instrs[i].(*ssa.Phi), phiVals[i])
		}
	}
	for _, in := range b.Instrs[nphi:] {
		m.steps++
		if m.steps > m.maxSteps {
			panic(&Inconclusive{"unwinding/step bound exceeded in " + fr.fn.String()})
		}
		switch x := in.(type) {
		case *ssa.If:
			c := m.get(fr, x.Cond).(*Term)
			from, st, se := b, b.Succs[0], b.Succs[1]
			if !c.IsConst() && !noIfConv {
				c, from, st, se = m.fuseShortCircuit(fr, b, c)
				if !c.IsConst() && m.tryIfConvert(fr, from, c, st, se) {
					return
				}
			}
			if from != b {
				fr.prev = from
				if m.ex.Branch(c, m.posStr(x.Pos())+" (fused)") {
					fr.block = st
				} else {
					fr.block = se
				}
				return
			}
			fr.prev = b
			where := m.posStr(x.Pos())
			if where == "?" {
				if cv, ok := x.Cond.(ssa.Instruction); ok && cv.Pos().IsValid() {
					where = m.posStr(cv.Pos())
				} else {
					where = fnName(fr.fn) + "#" + fmt.Sprint(b.Index)
				}
			}
			if m.ex.Branch(c, where) {
				fr.block = b.Succs[0]
			} else {
				fr.block = b.Succs[1]
			}
			return
		case *ssa.Jump:
			fr.prev = b
			fr.block = b.Succs[0]
			return
		case *ssa.Return:
			switch len(x.Results) {
			case 0:
			case 1:
				fr.result = m.get(fr, x.Results[0])
			default:
				t := make(Tuple, len(x.Results))
				for i, r := range x.Results {
					t[i] = m.get(fr, r)
				}
				fr.result = t
			}
			m.runDefers(fr)
			fr.block = nil
			return
		case *ssa.Panic:
			v := m.get(fr, x.X)
			p := m.newPanic("explicit", "explicit panic: "+fmt.Sprint(descr(v)), x.Pos()); p.val = v; panic(p)
		case *ssa.RunDefers:
			m.runDefers(fr)
		default:
			m.instr(fr, in)
		}
	}
}

func (m *Machine) runDefers(fr *frame) {
	for len(fr.defers) > 0 {
		d := fr.defers[len(fr.defers)-1]
		fr.defers = fr.defers[:len(fr.defers)-1]
		d()
	}
}

func descr(v Value) string {
	switch x := v.(type) {
	case Iface:
		if x.t == nil {
			return "nil"
		}
		return "iface(" + x.t.String() + ")"
	case *OpaqueErr:
		return "err:" + x.msg
	}
	return fmt.Sprintf("%T", v)
}

func (m *Machine) instr(fr *frame, in ssa.Instruction) {
	switch x := in.(type) {
	case *ssa.Alloc:
		v := zero(x.Type().(*types.Pointer).Elem())
		if bo, ok := v.(*ByteObj); ok {
			fr.env.put(x, BPtr{obj: bo, idx: nil})
			return
		}
		fr.env.put(x, &v)
	case *ssa.UnOp:
		fr.env.put(x, m.unop(fr, x))
	case *ssa.BinOp:
		fr.env.put(x, m.binop(x.Op, x.X.Type(), m.get(fr, x.X), m.get(fr, x.Y), x.Pos()))
	case *ssa.Call:
		fr.env.put(x, m.doCall(fr, &x.Call, x.Pos()))
	case *ssa.Defer:
		call := x.Call
		fnv, args := m.prepareCall(fr, &call, x.Pos())
		fr.defers = append(fr.defers, func() { m.invoke(fr, fnv, args, x.Pos()) })
	case *ssa.Extract:
		fr.env.put(x, m.get(fr, x.Tuple).(Tuple)[x.Index])
	case *ssa.Store:
		m.store(m.get(fr, x.Addr), m.get(fr, x.Val), x.Pos())
	case *ssa.FieldAddr:
		p := m.get(fr, x.X).(*Value)
		if p == nil {
			m.goPanic(fr, x.Pos(), "nil pointer dereference (field %d)", x.Field)
		}
		s := (*p).(Struct)
		if bo, ok := s[x.Field].(*ByteObj); ok {
			fr.env.put(x, BPtr{obj: bo})
			return
		}
		fr.env.put(x, &s[x.Field])
	case *ssa.Field:
		fr.env.put(x, m.get(fr, x.X).(Struct)[x.Field])
	case *ssa.IndexAddr:
		fr.env.put(x, m.indexAddr(fr, x))
	case *ssa.Index:
		fr.env.put(x, m.index(fr, x))
	case *ssa.Slice:
		fr.env.put(x, m.slice(fr, x))
	case *ssa.MakeSlice:
		n := m.get(fr, x.Len).(*Term)
		c := m.get(fr, x.Cap).(*Term)
		if _, sg := width(x.Len.Type()); sg {
			n = SExt(64, n)
		} else {
			n = ZExt(64, n)
		}
		if _, sg := width(x.Cap.Type()); sg {
			c = SExt(64, c)
		} else {
			c = ZExt(64, c)
		}
		et := x.Type().Underlying().(*types.Slice).Elem()
		// makeslice panics when len<0, cap<len or size too large
		bad := Or(Cmp("bvslt", n, i64_0), Cmp("bvslt", c, n))
		if m.ex.Branch(bad, m.posStr(x.Pos())+" makeslice-range") {
			m.goPanic(fr, x.Pos(), "makeslice: len out of range")
		}
		if isByte(et) {
			m.noteAlloc(c, x.Pos())
			m.objCount++
			fr.env.put(x, BSlice{&ByteObj{arr: ArrConst(0), size: c, id: m.objCount}, i64_0, n, c})
			return
		}
		// bytes requested = capacity x element size (the ceiling is in bytes)
		esz := stdSizes.Sizeof(et)
		if esz < 1 {
			esz = 1
		}
		if c.IsConst() {
			m.noteAlloc(I64(int64(c.val)*esz), x.Pos())
		} else {
			// c*esz without overflow: c is known non-negative here; saturate when c is huge
			huge := Cmp("bvult", I64((1<<40)/esz), c)
			m.noteAlloc(Ite(huge, I64(1<<40), Bin("bvmul", c, I64(esz))), x.Pos())
		}
		cn := m.ex.Concretize(c, 4096, "makeslice cap")
		ln := m.ex.Concretize(n, 4096, "makeslice len")
		d := make([]Value, ln, cn)
		for i := range d {
			d[i] = zero(et)
		}
		fr.env.put(x, VSlice{data: d})
	case *ssa.MakeInterface:
		fr.env.put(x, Iface{t: x.X.Type(), v: m.get(fr, x.X)})
	case *ssa.ChangeInterface:
		fr.env.put(x, m.get(fr, x.X))
	case *ssa.ChangeType:
		fr.env.put(x, m.get(fr, x.X))
	case *ssa.Convert:
		fr.env.put(x, m.convert(x.X.Type(), x.Type(), m.get(fr, x.X)))
	case *ssa.MakeClosure:
		env := make([]Value, len(x.Bindings))
		for i, b := range x.Bindings {
			env[i] = m.get(fr, b)
		}
		fr.env.put(x, &Closure{fn: x.Fn.(*ssa.Function), env: env})
	case *ssa.MakeMap:
		fr.env.put(x, &Map{kt: x.Type().Underlying().(*types.Map).Key()})
	case *ssa.MapUpdate:
		mp := m.get(fr, x.Map).(*Map)
		m.mapSet(mp, m.get(fr, x.Key), m.get(fr, x.Value))
	case *ssa.Lookup:
		fr.env.put(x, m.lookup(fr, x))
	case *ssa.TypeAssert:
		fr.env.put(x, m.typeAssert(fr, x))
	case *ssa.Range:
		v := m.get(fr, x.X)
		if mp, ok := v.(*Map); ok {
			it := &MapIter{m: mp}
			if mp != nil {
				it.order = m.ex.Permutation(len(mp.keys))
			}
			fr.env.put(x, it)
		} else if st, ok := v.(Str); ok {
			// range over a string: decoded rune by rune; only ASCII bytes are modelled (a byte >= 0x80 ends the path
			// as inconclusive - UTF-8 decoding of symbolic bytes is not encoded)
			n := m.ex.Concretize(st.n, 1<<16, "range string len")
			it := &MapIter{str: &st}
			it.order = make([]int, n)
			fr.env.put(x, it)
		} else {
			panic(&Inconclusive{"range over this type unsupported"})
		}
	case *ssa.Next:
		it := m.get(fr, x.Iter).(*MapIter)
		if it.str != nil {
			if it.pos >= len(it.order) {
				fr.env.put(x, Tuple{Bool(false), i64_0, BV(32, 0)})
			} else {
				b := Select(it.str.arr, Bin("bvadd", it.str.off, I64(int64(it.pos))))
				if m.ex.Branch(Cmp("bvult", b, BV(8, 0x80)), "range string: ascii") {
					fr.env.put(x, Tuple{Bool(true), I64(int64(it.pos)), ZExt(32, b)})
					it.pos++
				} else {
					panic(&Inconclusive{"range over a string with a non-ASCII byte (UTF-8 decoding not modelled)"})
				}
			}
			return
		}
		if it.pos >= len(it.order) {
			fr.env.put(x, Tuple{Bool(false), zero(x.Type().(*types.Tuple).At(1).Type()), zero(x.Type().(*types.Tuple).At(2).Type())})
		} else {
			i := it.order[it.pos]
			it.pos++
			fr.env.put(x, Tuple{Bool(true), it.m.keys[i], it.m.vals[i]})
		}
	case *ssa.DebugRef:
	default:
		panic(&Inconclusive{fmt.Sprintf("unsupported instruction %T: %s", in, in)})
	}
}

func (m *Machine) load(p Value, pos token.Pos) Value {
	switch a := p.(type) {
	case *Value:
		if a == nil {
			panic(m.newPanic("nil", "nil pointer dereference", pos))
		}
		return copyVal(*a)
	case BPtr:
		if a.idx == nil { // whole array value
			return &ByteObj{arr: a.obj.arr, size: a.obj.size}
		}
		return Select(a.obj.arr, a.idx)
	}
	panic(fmt.Sprintf("load from %T", p))
}

func (m *Machine) store(p, v Value, pos token.Pos) {
	switch a := p.(type) {
	case *Value:
		if a == nil {
			panic(m.newPanic("nil", "nil pointer dereference (store)", pos))
		}
		assign(a, v)
	case BPtr:
		if a.idx == nil {
			src := v.(*ByteObj)
			a.obj.arr = src.arr
			return
		}
		a.obj.arr = Store(a.obj.arr, a.idx, v.(*Term))
	default:
		panic(fmt.Sprintf("store to %T", p))
	}
}

func (m *Machine) noteAlloc(size *Term, pos token.Pos) {
	m.ex.NoteAlloc(size, m.posStr(pos), m.topFn(), 0)
}

func (m *Machine) unop(fr *frame, x *ssa.UnOp) Value {
	v := m.get(fr, x.X)
	switch x.Op {
	case token.MUL:
		return m.load(v, x.Pos())
	case token.NOT:
		return Not(v.(*Term))
	case token.SUB:
		t := v.(*Term)
		return Bin("bvsub", BV(t.w, 0), t)
	case token.XOR:
		t := v.(*Term)
		return Bin("bvxor", t, BV(t.w, mask(t.w)))
	}
	panic(&Inconclusive{"unsupported unop " + x.Op.String()})
}

func (m *Machine) boundsCheck(idx, n *Term, pos token.Pos, what string) {
	bad := Not(Cmp("bvult", idx, n)) // unsigned compare covers negative
	if m.ex.Branch(bad, m.posStr(pos)+" "+what) {
		panic(m.newPanic("index", "index out of range (" + what + ")", pos))
	}
}

func (m *Machine) indexAddr(fr *frame, x *ssa.IndexAddr) Value {
	base := m.get(fr, x.X)
	idx := SExt(64, m.get(fr, x.Index).(*Term))
	if _, signed := width(x.Index.Type()); !signed {
		idx = ZExt(64, m.get(fr, x.Index).(*Term))
	}
	switch b := base.(type) {
	case BSlice:
		m.boundsCheck(idx, b.n, x.Pos(), "index")
		return BPtr{obj: b.obj, idx: Bin("bvadd", b.off, idx)}
	case BPtr: // pointer to byte array
		m.boundsCheck(idx, b.obj.size, x.Pos(), "array index")
		return BPtr{obj: b.obj, idx: idx}
	case VSlice:
		i := m.ex.ConcretizeIdx(idx, len(b.data), m.posStr(x.Pos()))
		if i < 0 || i >= len(b.data) {
			panic(m.newPanic("index", "index out of range", x.Pos()))
		}
		return &b.data[i]
	case *Value: // pointer to array
		arr := (*b).(Array)
		i := m.ex.ConcretizeIdx(idx, len(arr), m.posStr(x.Pos()))
		if i < 0 || i >= len(arr) {
			panic(m.newPanic("index", "index out of range", x.Pos()))
		}
		return &arr[i]
	}
	panic(fmt.Sprintf("indexAddr on %T", base))
}

func (m *Machine) index(fr *frame, x *ssa.Index) Value {
	base := m.get(fr, x.X)
	idx := ZExt(64, m.get(fr, x.Index).(*Term))
	if _, signed := width(x.Index.Type()); signed {
		idx = SExt(64, m.get(fr, x.Index).(*Term))
	}
	switch b := base.(type) {
	case Str:
		m.boundsCheck(idx, b.n, x.Pos(), "string index")
		return Select(b.arr, Bin("bvadd", b.off, idx))
	case Array:
		i := m.ex.ConcretizeIdx(idx, len(b), m.posStr(x.Pos()))
		if i < 0 || i >= len(b) {
			panic(m.newPanic("index", "index out of range", x.Pos()))
		}
		return b[i]
	case *ByteObj:
		m.boundsCheck(idx, b.size, x.Pos(), "array index")
		return Select(b.arr, idx)
	}
	panic(fmt.Sprintf("index on %T", base))
}

func (m *Machine) slice(fr *frame, x *ssa.Slice) Value {
	base := m.get(fr, x.X)
	opt := func(v ssa.Value) *Term {
		if v == nil {
			return nil
		}
		t := m.get(fr, v).(*Term)
		if _, signed := width(v.Type()); signed {
			return SExt(64, t)
		}
		return ZExt(64, t)
	}
	lo, hi, mx := opt(x.Low), opt(x.High), opt(x.Max)
	if lo == nil {
		lo = i64_0
	}
	check := func(n, cp *Term, isStr bool) (*Term, *Term) {
		if hi == nil {
			hi = n
		}
		limit := cp
		if mx != nil {
			limit = mx
		}
		// 0 <= lo <= hi <= limit (<= cap)
		bad := Or(Or(Cmp("bvult", hi, lo), Cmp("bvult", limit, hi)), Cmp("bvult", cp, limit))
		if m.ex.Branch(bad, m.posStr(x.Pos())+" slice-bounds") {
			panic(m.newPanic("slice-bounds", fmt.Sprintf("slice bounds out of range"), x.Pos()))
		}
		return Bin("bvsub", hi, lo), Bin("bvsub", limit, lo)
	}
	switch b := base.(type) {
	case BSlice:
		n, c := check(b.n, b.cap, false)
		if b.obj == nil {
			return BSlice{nil, i64_0, n, c}
		}
		if b.obj.size.IsConst() && b.obj.size.val <= 32 {
			if !lo.IsConst() {
				lo = I64(int64(m.ex.Concretize(lo, 256, "slice lo")))
			}
			if !n.IsConst() {
				n = I64(int64(m.ex.Concretize(n, 256, "slice len")))
			}
		}
		return BSlice{b.obj, Bin("bvadd", b.off, lo), n, c}
	case Str:
		n, _ := check(b.n, b.n, true)
		return Str{b.arr, Bin("bvadd", b.off, lo), n}
	case BPtr: // *[N]byte
		n, c := check(b.obj.size, b.obj.size, false)
		return BSlice{b.obj, lo, n, c}
	case VSlice:
		l := m.ex.Concretize(lo, 1<<30, "slice lo")
		h := len(b.data)
		if hi != nil {
			h = m.ex.Concretize(hi, 1<<30, "slice hi")
		}
		if l < 0 || h < l || h > cap(b.data) {
			panic(m.newPanic("slice-bounds", "slice bounds out of range", x.Pos()))
		}
		if mx != nil {
			mm := m.ex.Concretize(mx, 1<<30, "slice max")
			return VSlice{data: b.data[l:h:mm]}
		}
		return VSlice{data: b.data[l:h], null: b.null && h == 0}
	case *Value: // pointer to array
		arr := (*b).(Array)
		l := m.ex.Concretize(lo, 1<<30, "slice lo")
		h := len(arr)
		if hi != nil {
			h = m.ex.Concretize(hi, 1<<30, "slice hi")
		}
		return VSlice{data: arr[l:h]}
	}
	panic(fmt.Sprintf("slice on %T", base))
}

func (m *Machine) convert(from, to types.Type, v Value) Value {
	fu, tu := from.Underlying(), to.Underlying()
	if fb, ok := fu.(*types.Basic); ok {
		if tb, ok := tu.(*types.Basic); ok {
			if fb.Info()&types.IsInteger != 0 && tb.Info()&types.IsInteger != 0 {
				t := v.(*Term)
				tw, _ := width(to)
				_, fs := width(from)
				if fs {
					return SExt(tw, t)
				}
				return ZExt(tw, t)
			}
			if fb.Info()&types.IsString != 0 && tb.Info()&types.IsString != 0 {
				return v
			}
			if tb.Kind() == types.UnsafePointer || fb.Kind() == types.UnsafePointer {
				panic(&Inconclusive{"unsafe pointer conversion"})
			}
			if fb.Info()&types.IsInteger != 0 && tb.Info()&types.IsFloat != 0 {
				t := v.(*Term)
				if t.IsConst() {
					return float64(t.val)
				}
				return &SymFloat{from: t, mul: 1}
			}
			if fb.Info()&types.IsFloat != 0 && tb.Info()&types.IsInteger != 0 {
				tw, _ := width(to)
				switch f := v.(type) {
				case float64:
					return BV(tw, uint64(int64(f)))
				case *SymFloat:
					r := UF("f2i", tw, f.from, BV(64, uint64(f.mul*1000)))
					// the only fact used about int(float64(n)*k) for 1 <= k <= 2: n < 2^52 => n <= r <= 2n (exact
					// conversion below 2^53, monotone multiplication, truncation toward zero)
					if f.mul >= 1 && f.mul <= 2 && tw == 64 && f.from.w == 64 {
						small := Cmp("bvult", f.from, BV(64, 1<<52))
						m.ex.Assume(Or(Not(small), And(Cmp("bvule", f.from, r), Cmp("bvule", r, Bin("bvshl", f.from, BV(64, 1))))), "float model")
					}
					return r
				}
			}
		}
		if ts, ok := tu.(*types.Slice); ok && fb.Info()&types.IsString != 0 && isByte(ts.Elem()) {
			s := v.(Str)
			m.objCount++
			// copy: fresh object whose array is the string's array shifted; keep it simple when off==0
			return m.bytesFromStr(s)
		}
	}
	if fs, ok := fu.(*types.Slice); ok && isByte(fs.Elem()) {
		if tb, ok := tu.(*types.Basic); ok && tb.Info()&types.IsString != 0 {
			b := v.(BSlice)
			if b.obj == nil {
				return Str{ArrConst(0), i64_0, i64_0}
			}
			return Str{b.obj.arr, b.off, b.n}
		}
	}
	panic(&Inconclusive{fmt.Sprintf("unsupported conversion %s -> %s in %s", from, to, fmt.Sprint(m.stack))})
}

type SymFloat struct {
	from *Term
	mul  float64
}

func (m *Machine) bytesFromStr(s Str) BSlice {
	m.objCount++
	n := m.ex.Concretize(s.n, 1<<16, "string->[]byte len")
	arr := ArrConst(0)
	for i := 0; i < n; i++ {
		arr = Store(arr, I64(int64(i)), Select(s.arr, Bin("bvadd", s.off, I64(int64(i)))))
	}
	return BSlice{&ByteObj{arr: arr, size: I64(int64(n)), id: m.objCount}, i64_0, I64(int64(n)), I64(int64(n))}
}

func (m *Machine) binop(op token.Token, t types.Type, a, b Value, pos token.Pos) Value {
	switch x := a.(type) {
	case *Term:
		y := b.(*Term)
		if x.w == 0 { // bool
			switch op {
			case token.EQL:
				return Not(mk("xor", 0, 0, "", 0, 0, x, y)).simplBoolEq(x, y)
			case token.NEQ:
				return Not(Not(mk("xor", 0, 0, "", 0, 0, x, y)).simplBoolEq(x, y))
			case token.AND:
				return And(x, y)
			case token.OR:
				return Or(x, y)
			}
		}
		_, signed := width(t)
		switch op {
		case token.ADD:
			return Bin("bvadd", x, y)
		case token.SUB:
			return Bin("bvsub", x, y)
		case token.MUL:
			return Bin("bvmul", x, y)
		case token.QUO, token.REM:
			if m.ex.Branch(Eq(y, BV(y.w, 0)), m.posStr(pos)+" div-by-zero") {
				panic(m.newPanic("divide", "integer divide by zero", pos))
			}
			o := map[bool]map[token.Token]string{true: {token.QUO: "bvsdiv", token.REM: "bvsrem"}, false: {token.QUO: "bvudiv", token.REM: "bvurem"}}[signed][op]
			return Bin(o, x, y)
		case token.AND:
			return Bin("bvand", x, y)
		case token.OR:
			return Bin("bvor", x, y)
		case token.XOR:
			return Bin("bvxor", x, y)
		case token.AND_NOT:
			return Bin("bvand", x, Bin("bvxor", y, BV(y.w, mask(y.w))))
		case token.SHL, token.SHR:
			if y.IsConst() {
				o := "bvshl"
				if op == token.SHR {
					o = "bvlshr"
					if signed {
						o = "bvashr"
					}
				}
				cnt := y.val
				if cnt > uint64(x.w) {
					cnt = uint64(x.w)
				}
				return Bin(o, x, BV(x.w, cnt))
			}
			w := x.w
			mw := w
			if y.w > mw {
				mw = y.w
			}
			var xe *Term
			if signed {
				xe = SExt(mw, x)
			} else {
				xe = ZExt(mw, x)
			}
			ye := ZExt(mw, y)
			o := "bvshl"
			if op == token.SHR {
				o = "bvlshr"
				if signed {
					o = "bvashr"
				}
			}
			r := Bin(o, xe, ye)
			return Extract(w-1, 0, r)
		case token.EQL:
			if r := idealCRCEq(x, y); r != nil {
				return r
			}
			return Eq(x, y)
		case token.NEQ:
			if r := idealCRCEq(x, y); r != nil {
				return Not(r)
			}
			return Not(Eq(x, y))
		case token.LSS:
			if signed {
				return Cmp("bvslt", x, y)
			}
			return Cmp("bvult", x, y)
		case token.LEQ:
			if signed {
				return Cmp("bvsle", x, y)
			}
			return Cmp("bvule", x, y)
		case token.GTR:
			if signed {
				return Cmp("bvslt", y, x)
			}
			return Cmp("bvult", y, x)
		case token.GEQ:
			if signed {
				return Cmp("bvsle", y, x)
			}
			return Cmp("bvule", y, x)
		}
	case Str:
		y := b.(Str)
		switch op {
		case token.EQL:
			return m.strEq(x, y)
		case token.NEQ:
			return Not(m.strEq(x, y))
		case token.ADD:
			return m.strConcat(x, y)
		case token.LSS:
			return m.strLess(x, y)
		case token.GTR:
			return m.strLess(y, x)
		case token.LEQ:
			return Not(m.strLess(y, x))
		case token.GEQ:
			return Not(m.strLess(x, y))
		}
	case float64:
		switch y := b.(type) {
		case float64:
			switch op {
			case token.MUL:
				return x * y
			}
		case *SymFloat:
			if op == token.MUL {
				return &SymFloat{from: y.from, mul: y.mul * x}
			}
		}
	case *SymFloat:
		if y, ok := b.(float64); ok && op == token.MUL {
			return &SymFloat{from: x.from, mul: x.mul * y}
		}
	default:
		// pointer / interface / nil comparisons
		switch op {
		case token.EQL:
			return Bool(m.identEq(a, b))
		case token.NEQ:
			return Bool(!m.identEq(a, b))
		}
	}
	panic(&Inconclusive{fmt.Sprintf("unsupported binop %s on %T at %s", op, a, m.posStr(pos))})
}

func (t *Term) simplBoolEq(x, y *Term) *Term {
	if x.IsConst() && y.IsConst() {
		return Bool(x.val == y.val)
	}
	if x == y {
		return Bool(true)
	}
	if y.IsTrue() {
		return x
	}
	if y.IsFalse() {
		return Not(x)
	}
	if x.IsTrue() {
		return y
	}
	if x.IsFalse() {
		return Not(y)
	}
	return mk("=", 0, 0, "", 0, 0, x, y)
}

func isNilVal(v Value) bool {
	switch x := v.(type) {
	case nil:
		return true
	case *Value:
		return x == nil
	case *Map:
		return x == nil
	case *Closure:
		return x == nil
	case Iface:
		return x.t == nil
	case BSlice:
		return x.obj == nil
	case VSlice:
		return x.null
	}
	return false
}

func (m *Machine) identEq(a, b Value) bool {
	if isNilVal(a) || isNilVal(b) {
		return isNilVal(a) && isNilVal(b)
	}
	switch x := a.(type) {
	case Iface:
		y, ok := b.(Iface)
		if !ok {
			return false
		}
		if !types.Identical(x.t, y.t) {
			return false
		}
		return m.identEq(x.v, y.v)
	case *Value:
		y, ok := b.(*Value)
		return ok && x == y
	case *OpaqueErr:
		y, ok := b.(*OpaqueErr)
		return ok && x == y
	case *Term:
		y, ok := b.(*Term)
		if ok && x.IsConst() && y.IsConst() {
			return x.val == y.val
		}
		if ok && x == y {
			return true
		}
		if ok {
			return m.ex.Branch(Eq(x, y), "iface scalar eq")
		}
	case Str:
		y, ok := b.(Str)
		if ok {
			return m.ex.Branch(m.strEq(x, y), "iface str eq")
		}
	case Struct:
		y, ok := b.(Struct)
		if !ok || len(x) != len(y) {
			return false
		}
		for i := range x {
			if !m.identEq(x[i], y[i]) {
				return false
			}
		}
		return true
	}
	panic(&Inconclusive{fmt.Sprintf("identEq unsupported %T vs %T", a, b)})
}

func (m *Machine) strEq(x, y Str) *Term {
	r := Eq(x.n, y.n)
	if r.IsFalse() {
		return r
	}
	ub := m.ex.UpperBound(x.n, y.n)
	for i := 0; i < ub; i++ {
		ii := I64(int64(i))
		in := Cmp("bvslt", ii, x.n)
		eq := Eq(Select(x.arr, Bin("bvadd", x.off, ii)), Select(y.arr, Bin("bvadd", y.off, ii)))
		r = And(r, Or(Not(in), eq))
	}
	return r
}

func (m *Machine) strConcat(x, y Str) Str {
	nx := m.ex.Concretize(x.n, 1<<16, "concat len")
	ny := m.ex.Concretize(y.n, 1<<16, "concat len")
	arr := ArrConst(0)
	for i := 0; i < nx; i++ {
		arr = Store(arr, I64(int64(i)), Select(x.arr, Bin("bvadd", x.off, I64(int64(i)))))
	}
	for i := 0; i < ny; i++ {
		arr = Store(arr, I64(int64(nx+i)), Select(y.arr, Bin("bvadd", y.off, I64(int64(i)))))
	}
	return Str{arr, i64_0, I64(int64(nx + ny))}
}

func (m *Machine) keyEq(a, b Value) *Term {
	switch x := a.(type) {
	case *Term:
		return Eq(x, b.(*Term))
	case Str:
		return m.strEq(x, b.(Str))
	}
	return Bool(m.identEq(a, b))
}

func (m *Machine) mapFind(mp *Map, k Value) int {
	if mp == nil {
		return -1
	}
	for i := range mp.keys {
		if m.ex.Branch(m.keyEq(mp.keys[i], k), "map key eq") {
			return i
		}
	}
	return -1
}

func (m *Machine) mapSet(mp *Map, k, v Value) {
	if mp == nil {
		panic(m.newPanic("nil", "assignment to entry in nil map", token.NoPos))
	}
	if i := m.mapFind(mp, k); i >= 0 {
		mp.vals[i] = copyVal(v)
		return
	}
	mp.keys = append(mp.keys, k)
	mp.vals = append(mp.vals, copyVal(v))
}

func (m *Machine) lookup(fr *frame, x *ssa.Lookup) Value {
	base := m.get(fr, x.X)
	if s, ok := base.(Str); ok {
		idx := SExt(64, m.get(fr, x.Index).(*Term))
		m.boundsCheck(idx, s.n, x.Pos(), "string index")
		return Select(s.arr, Bin("bvadd", s.off, idx))
	}
	mp := base.(*Map)
	i := m.mapFind(mp, m.get(fr, x.Index))
	var vt types.Type
	if x.CommaOk {
		vt = x.Type().(*types.Tuple).At(0).Type()
	} else {
		vt = x.Type()
	}
	var v Value
	if i >= 0 {
		v = copyVal(mp.vals[i])
	} else {
		v = zero(vt)
	}
	if x.CommaOk {
		return Tuple{v, Bool(i >= 0)}
	}
	return v
}

func (m *Machine) typeAssert(fr *frame, x *ssa.TypeAssert) Value {
	iv := m.get(fr, x.X).(Iface)
	ok := false
	var res Value
	if it, isI := x.AssertedType.Underlying().(*types.Interface); isI {
		if iv.t != nil && types.Implements(iv.t, it) {
			ok = true
			res = iv
		} else {
			res = Iface{}
		}
	} else {
		if iv.t != nil && types.Identical(iv.t, x.AssertedType) {
			ok = true
			res = iv.v
		} else {
			res = zero(x.AssertedType)
		}
	}
	if x.CommaOk {
		return Tuple{res, Bool(ok)}
	}
	if !ok {
		panic(m.newPanic("type-assert", "interface conversion failed: " + x.AssertedType.String(), x.Pos()))
	}
	return res
}

// ---- calls ----

func (m *Machine) prepareCall(fr *frame, c *ssa.CallCommon, pos token.Pos) (Value, []Value) {
	var args []Value
	var fnv Value
	if c.IsInvoke() {
		recv := m.get(fr, c.Value).(Iface)
		if recv.t == nil {
			panic(m.newPanic("nil", "nil interface method call " + c.Method.Name(), pos))
		}
		if oe, ok := recv.v.(*OpaqueErr); ok {
			fnv = &opaqueMethod{oe, c.Method.Name()}
		} else if cs, ok := recv.v.(*CRCState); ok {
			fnv = &crcMethod{cs, c.Method.Name()}
		} else {
			f := m.prog.LookupMethod(recv.t, c.Method.Pkg(), c.Method.Name())
			if f == nil {
				panic(&Inconclusive{"method not found: " + recv.t.String() + "." + c.Method.Name()})
			}
			fnv = &Closure{fn: f}
			args = append(args, recv.v)
		}
	} else {
		fnv = m.get(fr, c.Value)
	}
	for _, a := range c.Args {
		args = append(args, m.get(fr, a))
	}
	return fnv, args
}

type crcMethod struct {
	s    *CRCState
	name string
}

type opaqueMethod struct {
	e    *OpaqueErr
	name string
}

func (m *Machine) doCall(fr *frame, c *ssa.CallCommon, pos token.Pos) Value {
	fnv, args := m.prepareCall(fr, c, pos)
	return m.invoke(fr, fnv, args, pos)
}

func (m *Machine) invoke(fr *frame, fnv Value, args []Value, pos token.Pos) Value {
	switch f := fnv.(type) {
	case *Closure:
		if f == nil {
			panic(m.newPanic("nil", "call of nil func", pos))
		}
		return m.callClosure(fr, f, args, pos)
	case *ssa.Builtin:
		return m.builtin(fr, f, args, pos)
	case *opaqueMethod:
		if f.name == "Error" {
			return m.strConst(f.e.msg)
		}
	case *crcMethod:
		switch f.name {
		case "Write":
			b := args[0].(BSlice)
			f.s.st = crcUpdate(f.s.st, b)
			return Tuple{b.n, Iface{}}
		case "Sum32":
			return crcFinal(f.s.st)
		case "Reset":
			f.s.st = BV(32, 0)
			return nil
		}
	}
	panic(&Inconclusive{fmt.Sprintf("invoke of %T", fnv)})
}

func (m *Machine) builtin(fr *frame, b *ssa.Builtin, args []Value, pos token.Pos) Value {
	switch b.Name() {
	case "len":
		switch x := args[0].(type) {
		case BSlice:
			return x.n
		case Str:
			return x.n
		case VSlice:
			return I64(int64(len(x.data)))
		case *Map:
			if x == nil {
				return i64_0
			}
			return I64(int64(len(x.keys)))
		case Array:
			return I64(int64(len(x)))
		}
	case "cap":
		switch x := args[0].(type) {
		case BSlice:
			return x.cap
		case VSlice:
			return I64(int64(cap(x.data)))
		}
	case "copy":
		return m.copyBytes(args[0], args[1], pos)
	case "append":
		return m.appendVals(args[0], args[1], pos)
	case "min", "max":
		x, y := args[0].(*Term), args[1].(*Term)
		c := Cmp("bvslt", x, y)
		if b.Name() == "max" {
			return Ite(c, y, x)
		}
		return Ite(c, x, y)
	case "delete":
		mp := args[0].(*Map)
		if i := m.mapFind(mp, args[1]); i >= 0 {
			mp.keys = append(mp.keys[:i:i], mp.keys[i+1:]...)
			mp.vals = append(mp.vals[:i:i], mp.vals[i+1:]...)
		}
		return nil
	case "recover":
		return Iface{}
	case "String": // unsafe.String(ptr *byte, len): a string over the bytes ptr points at (snapshot of the current contents)
		if p, ok := args[0].(BPtr); ok {
			if p.obj == nil {
				return Str{ArrConst(0), i64_0, i64_0}
			}
			return Str{p.obj.arr, p.idx, args[1].(*Term)}
		}
	case "SliceData": // unsafe.SliceData(b []byte): pointer to the first byte
		if b, ok := args[0].(BSlice); ok {
			return BPtr{b.obj, b.off}
		}
	}
	panic(&Inconclusive{"unsupported builtin " + b.Name() + fmt.Sprintf(" %T", args[0])})
}

// copyBytes implements copy(dst, src) on byte slices / strings with bounded unrolling.
func (m *Machine) copyBytes(dst, src Value, pos token.Pos) Value {
	switch d := dst.(type) {
	case BSlice:
		var sarr, soff, sn *Term
		var srcSize *Term
		switch s := src.(type) {
		case BSlice:
			if s.obj == nil {
				return i64_0
			}
			sarr, soff, sn = s.obj.arr, s.off, s.n
			srcSize = s.obj.size
		case Str:
			sarr, soff, sn = s.arr, s.off, s.n
		}
		var n *Term
		if m.ex.Branch(Cmp("bvslt", d.n, sn), "copy-min") {
			n = d.n
		} else {
			n = sn
		}
		if d.obj == nil {
			return i64_0
		}
		ub := m.ex.UpperBoundHint(n, d.obj.size, srcSize)
		arr := d.obj.arr
		for i := 0; i < ub; i++ {
			ii := I64(int64(i))
			nv := Select(sarr, Bin("bvadd", soff, ii))
			di := Bin("bvadd", d.off, ii)
			c := Cmp("bvslt", ii, n)
			if c.IsTrue() {
				arr = Store(arr, di, nv)
			} else if !c.IsFalse() {
				arr = Store(arr, di, Ite(c, nv, Select(arr, di)))
			}
		}
		d.obj.arr = arr
		return n
	case VSlice:
		s := src.(VSlice)
		n := copy(d.data, s.data)
		return I64(int64(n))
	}
	panic(&Inconclusive{fmt.Sprintf("copy on %T", dst)})
}

func (m *Machine) appendVals(dst, src Value, pos token.Pos) Value {
	switch d := dst.(type) {
	case BSlice:
		var sarr, soff, sn *Term
		switch s := src.(type) {
		case BSlice:
			if s.obj == nil {
				return d
			}
			sarr, soff, sn = s.obj.arr, s.off, s.n
		case Str:
			sarr, soff, sn = s.arr, s.off, s.n
		}
		newLen := Bin("bvadd", d.n, sn)
		fits := Cmp("bvsle", newLen, d.cap)
		target := d
		if d.obj == nil || !m.ex.Branch(fits, m.posStr(pos)+" append-fits") {
			// grow: new object with cap = newLen (exact; growth policy abstracted)
			m.objCount++
			obj := &ByteObj{arr: ArrConst(0), size: newLen, id: m.objCount}
			target = BSlice{obj, i64_0, d.n, newLen}
			m.noteAlloc(newLen, pos)
			if d.obj != nil {
				if d.off.IsConst() && d.off.val == 0 {
					// arrays are immutable values: the grown object starts as the old contents. Exact because the
					// new capacity equals the new length, so every byte past the old length is overwritten below.
					obj.arr = d.obj.arr
				} else {
					m.copyBytes(BSlice{obj, i64_0, d.n, newLen}, d, pos)
				}
			}
		}
		m.copyBytes(BSlice{target.obj, Bin("bvadd", target.off, d.n), sn, sn}, BSlice{&ByteObj{arr: sarr}, soff, sn, sn}, pos)
		return BSlice{target.obj, target.off, newLen, target.cap}
	case VSlice:
		s := src.(VSlice)
		nd := append(d.data, s.data...)
		for i := len(d.data); i < len(nd); i++ {
			nd[i] = copyVal(nd[i])
		}
		return VSlice{data: nd, null: d.null && len(nd) == 0}
	}
	panic(&Inconclusive{fmt.Sprintf("append on %T", dst)})
}

var _ = os.Exit

// assign stores v into *dst in place so that pointers into aggregates stay valid.
func assign(dst *Value, v Value) {
	switch ds := (*dst).(type) {
	case Struct:
		if vs, ok := v.(Struct); ok && len(vs) == len(ds) {
			for i := range ds {
				assign(&ds[i], vs[i])
			}
			return
		}
	case Array:
		if vs, ok := v.(Array); ok && len(vs) == len(ds) {
			for i := range ds {
				assign(&ds[i], vs[i])
			}
			return
		}
	case *ByteObj:
		if vs, ok := v.(*ByteObj); ok && ds != nil {
			ds.arr = vs.arr
			return
		}
	}
	*dst = copyVal(v)
}

// ---- if-conversion of store-only triangles/diamonds ----

func simpleBlock(b *ssa.BasicBlock) bool {
	if len(b.Instrs) > 12 {
		return false
	}
	for _, in := range b.Instrs {
		switch x := in.(type) {
		case *ssa.FieldAddr, *ssa.Jump, *ssa.DebugRef:
		case *ssa.UnOp:
			if x.Op != token.MUL && x.Op != token.NOT && x.Op != token.SUB && x.Op != token.XOR {
				return false
			}
			if x.Op == token.MUL {
				if _, ok := x.Type().Underlying().(*types.Basic); !ok {
					if _, ok := x.Type().Underlying().(*types.Pointer); !ok {
						return false
					}
				}
			}
		case *ssa.BinOp:
			if x.Op == token.QUO || x.Op == token.REM {
				return false
			}
			if bt, ok := x.X.Type().Underlying().(*types.Basic); !ok || bt.Info()&(types.IsInteger|types.IsBoolean) == 0 {
				return false
			}
		case *ssa.Convert:
			bt, ok1 := x.Type().Underlying().(*types.Basic)
			bf, ok2 := x.X.Type().Underlying().(*types.Basic)
			if !ok1 || !ok2 || bt.Info()&types.IsInteger == 0 || bf.Info()&types.IsInteger == 0 {
				return false
			}
		case *ssa.Store:
			bt, ok := x.Val.Type().Underlying().(*types.Basic)
			if !ok || bt.Info()&(types.IsInteger|types.IsBoolean) == 0 {
				return false
			}
		default:
			return false
		}
	}
	return true
}

type pendingStore struct {
	addr *Value
	val  *Term
}

// specRun executes a simple block speculatively; returns pending stores and ok.
func (m *Machine) specRun(fr *frame, b *ssa.BasicBlock) (stores []pendingStore, ok bool) {
	defer func() {
		if r := recover(); r != nil {
			if _, isPanic := r.(*GoPanic); isPanic {
				ok = false
				return
			}
			if _, isEnd := r.(*PathEnd); isEnd {
				ok = false
				return
			}
			if _, isInc := r.(*Inconclusive); isInc {
				ok = false
				return
			}
			panic(r)
		}
	}()
	for _, in := range b.Instrs {
		switch x := in.(type) {
		case *ssa.Jump, *ssa.DebugRef:
		case *ssa.Store:
			a, isCell := m.get(fr, x.Addr).(*Value)
			if !isCell || a == nil {
				return nil, false
			}
			stores = append(stores, pendingStore{a, m.get(fr, x.Val).(*Term)})
		case *ssa.UnOp:
			if x.Op == token.MUL {
				a, isCell := m.get(fr, x.X).(*Value)
				if !isCell || a == nil {
					return nil, false
				}
				v := copyVal(*a)
				for _, ps := range stores {
					if ps.addr == a {
						v = ps.val
					}
				}
				fr.env.put(x, v)
			} else {
				fr.env.put(x, m.unop(fr, x))
			}
		default:
			m.instr(fr, in)
		}
	}
	return stores, true
}

var stdSizes = types.SizesFor("gc", "amd64")

var noIfConv = os.Getenv("NOIFCONV") != ""

func hasPhi(b *ssa.BasicBlock) bool {
	if len(b.Instrs) == 0 {
		return false
	}
	_, ok := b.Instrs[0].(*ssa.Phi)
	return ok
}

// pureCondBlock: a block with one predecessor that only computes scalars (no store, no call) and ends in an If.
func pureCondBlock(x *ssa.BasicBlock) (*ssa.If, bool) {
	if len(x.Preds) != 1 || len(x.Instrs) == 0 || len(x.Instrs) > 12 {
		return nil, false
	}
	iff, ok := x.Instrs[len(x.Instrs)-1].(*ssa.If)
	if !ok {
		return nil, false
	}
	for _, in := range x.Instrs[:len(x.Instrs)-1] {
		switch y := in.(type) {
		case *ssa.FieldAddr, *ssa.DebugRef:
		case *ssa.UnOp:
			if y.Op == token.MUL {
				if _, ok := y.Type().Underlying().(*types.Basic); !ok {
					return nil, false
				}
			} else if y.Op != token.NOT && y.Op != token.SUB && y.Op != token.XOR {
				return nil, false
			}
		case *ssa.BinOp:
			if y.Op == token.QUO || y.Op == token.REM {
				return nil, false
			}
			if bt, ok := y.X.Type().Underlying().(*types.Basic); !ok || bt.Info()&(types.IsInteger|types.IsBoolean) == 0 {
				return nil, false
			}
		case *ssa.Convert:
			bt, ok1 := y.Type().Underlying().(*types.Basic)
			bf, ok2 := y.X.Type().Underlying().(*types.Basic)
			if !ok1 || !ok2 || bt.Info()&types.IsInteger == 0 || bf.Info()&types.IsInteger == 0 {
				return nil, false
			}
		default:
			return nil, false
		}
	}
	return iff, true
}

// fuseShortCircuit recognises the control flow the SSA builder emits for `if a && b` / `if a || b`
// (a second, side-effect-free condition block sharing one target with the first) and fuses the two tests into
// one condition, so that a conjunction that folds to a constant does not fork and one that does not forks once.
// Returns the fused condition, the block control then leaves from, and the true/false targets.
func (m *Machine) fuseShortCircuit(fr *frame, b *ssa.BasicBlock, c *Term) (*Term, *ssa.BasicBlock, *ssa.BasicBlock, *ssa.BasicBlock) {
	from, t, e := b, b.Succs[0], b.Succs[1]
	for depth := 0; depth < 4; depth++ {
		var nb *ssa.BasicBlock
		and := false
		if iff, ok := pureCondBlock(t); ok && t != from && t.Succs[1] == e && !hasPhi(e) {
			nb, and = t, true
			_ = iff
		} else if iff, ok := pureCondBlock(e); ok && e != from && e.Succs[0] == t && !hasPhi(t) {
			nb = e
			_ = iff
		}
		if nb == nil {
			break
		}
		iff := nb.Instrs[len(nb.Instrs)-1].(*ssa.If)
		// speculative evaluation of the pure block
		ok := func() (ok bool) {
			defer func() {
				if r := recover(); r != nil {
					switch r.(type) {
					case *GoPanic, *PathEnd, *Inconclusive:
						ok = false
					default:
						panic(r)
					}
				}
			}()
			save := fr.prev
			fr.prev = from
			defer func() { fr.prev = save }()
			for _, in := range nb.Instrs[:len(nb.Instrs)-1] {
				switch y := in.(type) {
				case *ssa.DebugRef:
				case *ssa.UnOp:
					if y.Op == token.MUL {
						a, isCell := m.get(fr, y.X).(*Value)
						if !isCell || a == nil {
							return false
						}
						fr.env.put(y, copyVal(*a))
					} else {
						fr.env.put(y, m.unop(fr, y))
					}
				default:
					m.instr(fr, in)
				}
			}
			return true
		}()
		if !ok {
			break
		}
		c2, isT := m.get(fr, iff.Cond).(*Term)
		if !isT {
			break
		}
		if and {
			c = And(c, c2)
			t = nb.Succs[0]
		} else {
			c = Or(c, c2)
			e = nb.Succs[1]
		}
		from = nb
		if c.IsConst() {
			break
		}
	}
	return c, from, t, e
}

func (m *Machine) tryIfConvert(fr *frame, b *ssa.BasicBlock, c *Term, t, e *ssa.BasicBlock) bool {
	var thenB, elseB, join *ssa.BasicBlock
	// an arm may have other predecessors (the shared "then" block of `a || b`): it contains no phi
	// (simpleBlock rejects them), so running it from b is exactly what the taken edge would do
	single := func(x *ssa.BasicBlock) bool { return len(x.Succs) == 1 && x != b && simpleBlock(x) }
	switch {
	case single(t) && t.Succs[0] == e:
		thenB, join = t, e
	case single(e) && e.Succs[0] == t:
		elseB, join = e, t
	case single(t) && single(e) && t.Succs[0] == e.Succs[0]:
		thenB, elseB, join = t, e, t.Succs[0]
	default:
		return false
	}
	// join phis must be scalar
	var phis []*ssa.Phi
	for _, in := range join.Instrs {
		p, ok := in.(*ssa.Phi)
		if !ok {
			break
		}
		bt, isB := p.Type().Underlying().(*types.Basic)
		if !isB || bt.Info()&(types.IsInteger|types.IsBoolean) == 0 {
			return false
		}
		phis = append(phis, p)
	}
	var st1, st2 []pendingStore
	ok := true
	if thenB != nil {
		if st1, ok = m.specRun(fr, thenB); !ok {
			return false
		}
	}
	if elseB != nil {
		if st2, ok = m.specRun(fr, elseB); !ok {
			return false
		}
	}
	// phi values
	edgeVal := func(p *ssa.Phi, from *ssa.BasicBlock) *Term {
		for i, pr := range join.Preds {
			if pr == from {
				return m.get(fr, p.Edges[i]).(*Term)
			}
		}
		panic("ifconv: missing phi edge")
	}
	phiVals := make([]*Term, len(phis))
	for i, p := range phis {
		fromT, fromE := b, b
		if thenB != nil {
			fromT = thenB
		}
		if elseB != nil {
			fromE = elseB
		}
		vt, ve := edgeVal(p, fromT), edgeVal(p, fromE)
		if vt.w == 0 {
			phiVals[i] = Or(And(c, vt), And(Not(c), ve))
		} else {
			phiVals[i] = Ite(c, vt, ve)
		}
	}
	for _, ps := range st1 {
		old := (*ps.addr).(*Term)
		*ps.addr = iteAny(c, ps.val, old)
	}
	for _, ps := range st2 {
		old := (*ps.addr).(*Term)
		*ps.addr = iteAny(Not(c), ps.val, old)
	}
	for i, p := range phis {
		fr.env.put(p, phiVals[i])
	}
	// enter join past its phis
	fr.prev = b
	fr.block = join
	m.runBlockFrom(fr, len(phis))
	return true
}

func iteAny(c, a, b *Term) *Term {
	if a.w == 0 {
		return Or(And(c, a), And(Not(c), b))
	}
	return Ite(c, a, b)
}

var idealCRC bool

// crcBytes flattens a crc_fin(fold) term into the list of fed byte terms.
func crcBytes(t *Term) ([]*Term, bool) {
	if t.op != "uf:crc_fin" {
		return nil, false
	}
	var out []*Term
	st := t.args[0]
	for st.op == "uf:crc_step" {
		out = append(out, st.args[1])
		st = st.args[0]
	}
	if !(st.IsConst() && st.val == 0) {
		return nil, false
	}
	return out, true
}

func idealCRCEq(x, y *Term) *Term {
	if !idealCRC {
		return nil
	}
	a, ok1 := crcBytes(x)
	b, ok2 := crcBytes(y)
	if x.w == 32 && os.Getenv("DEBUGCRC") != "" {
		fmt.Printf("    crc-eq? x.op=%s(%v) y.op=%s(%v)\n", x.op, ok1, y.op, ok2)
		if y.op == "concat" || y.op == "lanes" {
			for _, a := range y.args {
				fmt.Printf("       arg op=%s w=%d hi=%d lo=%d base=%s\n", a.op, a.w, a.hi, a.lo, func() string { if len(a.args) > 0 { return a.args[0].op }; return "" }())
			}
		}
	}
	if !ok1 || !ok2 {
		return nil
	}
	if len(a) != len(b) {
		return Bool(false)
	}
	r := Bool(true)
	for i := range a {
		r = And(r, Eq(a[i], b[i]))
	}
	return r
}
