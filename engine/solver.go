package main

import (
	"bufio"
	"fmt"
	"io"
	"os"
	"os/exec"
	"sort"
	"strconv"
	"strings"
	"time"
)

// Proc is one live SMT solver process. Every hash-consed term is emitted once as a global
// define-fun; queries are check-sat-assuming over named Boolean terms (no push/pop).
type Proc struct {
	name    string
	cmd     *exec.Cmd
	in      io.WriteCloser
	out     *bufio.Reader
	defined map[int]bool
	ufDecl  map[string]bool
	Queries int
	Decided int
	Time    time.Duration
	log     io.Writer
	dead    bool
}

type solverSpec struct {
	name string
	bin  string
	args []string
	pre  []string
}

func solverSpecs(limit1, limit2, limit3 int) map[string]solverSpec {
	return map[string]solverSpec{
		"z3": {name: "z3-4.8.12", bin: "z3", args: []string{"-in"},
			pre: []string{"(set-option :produce-models true)", fmt.Sprintf("(set-option :timeout %d)", limit1)}},
		"cvc5": {name: "cvc5-1.0", bin: "cvc5", args: []string{"--incremental", "--produce-models", fmt.Sprintf("--tlimit-per=%d", limit2), "--lang=smt2"},
			pre: []string{"(set-logic ALL)"}},
		"z3new": {name: "z3-5.1.0", bin: "z3-new", args: []string{"-in"},
			pre: []string{"(set-option :produce-models true)", fmt.Sprintf("(set-option :timeout %d)", limit3)}},
	}
}

func startProc(sp solverSpec, logPrefix string) *Proc {
	cmd := exec.Command(sp.bin, sp.args...)
	in, _ := cmd.StdinPipe()
	out, _ := cmd.StdoutPipe()
	cmd.Stderr = cmd.Stdout
	if err := cmd.Start(); err != nil {
		panic(fmt.Sprintf("cannot start solver %s: %v", sp.bin, err))
	}
	p := &Proc{name: sp.name, cmd: cmd, in: in, out: bufio.NewReaderSize(out, 1<<16), defined: map[int]bool{}, ufDecl: map[string]bool{}}
	if logPrefix != "" {
		f, err := os.Create(logPrefix + "." + sp.name + ".smt2")
		if err == nil {
			p.log = f
		}
	}
	for _, l := range sp.pre {
		p.send(l)
	}
	return p
}

func (s *Proc) send(l string) {
	if s.log != nil {
		fmt.Fprintln(s.log, l)
	}
	if _, err := fmt.Fprintln(s.in, l); err != nil {
		s.dead = true
	}
}

func (s *Proc) define(t *Term) {
	if s.defined[t.id] {
		return
	}
	stack := []*Term{t}
	for len(stack) > 0 {
		x := stack[len(stack)-1]
		if s.defined[x.id] {
			stack = stack[:len(stack)-1]
			continue
		}
		pending := false
		for _, a := range x.args {
			if !s.defined[a.id] {
				stack = append(stack, a)
				pending = true
			}
		}
		if pending {
			continue
		}
		stack = stack[:len(stack)-1]
		s.defined[x.id] = true
		switch x.op {
		case "const", "true", "false":
		case "var", "avar":
			s.send(fmt.Sprintf("(declare-const %s %s)", x.name, sortStr(x)))
		default:
			if strings.HasPrefix(x.op, "uf:") && !s.ufDecl[x.op] {
				s.ufDecl[x.op] = true
				var as []string
				for _, a := range x.args {
					as = append(as, sortStr(a))
				}
				s.send(fmt.Sprintf("(declare-fun %s (%s) %s)", x.op[3:], strings.Join(as, " "), sortStr(x)))
			}
			s.send(fmt.Sprintf("(define-fun t%d () %s %s)", x.id, sortStr(x), x.body()))
		}
	}
}

func (s *Proc) readLine() (string, bool) {
	l, err := s.out.ReadString('\n')
	if err != nil {
		s.dead = true
		return "", false
	}
	return strings.TrimSpace(l), true
}

func litRefs(s *Proc, lits []*Term) []string {
	var refs []string
	for _, l := range lits {
		if l.IsTrue() {
			continue
		}
		s.define(l)
		if l.op == "not" {
			refs = append(refs, "(not "+l.args[0].ref()+")")
		} else {
			refs = append(refs, l.ref())
		}
	}
	return refs
}

// check returns sat / unsat / unknown / error
func (s *Proc) check(lits []*Term) string {
	if s.dead {
		return "error"
	}
	refs := litRefs(s, lits)
	t0 := time.Now()
	s.send(fmt.Sprintf("(check-sat-assuming (%s))", strings.Join(refs, " ")))
	r, ok := s.readLine()
	s.Time += time.Since(t0)
	s.Queries++
	if !ok {
		return "error"
	}
	switch r {
	case "sat", "unsat":
		s.Decided++
		return r
	case "unknown", "timeout":
		return "unknown"
	}
	if strings.HasPrefix(r, "(error") && strings.Contains(r, "interrupt") {
		return "unknown"
	}
	if strings.Contains(r, "cadical: fatal error") {
		// cvc5 1.0.3 dies this way when --tlimit-per expires inside the SAT solver: a timeout, and the process is gone
		s.dead = true
		return "unknown"
	}
	// any (error ...) line or anything unexpected: inconclusive, and this process is no longer trusted
	fmt.Fprintf(os.Stderr, "solver %s unexpected output: %s\n", s.name, r)
	s.dead = true
	return "error"
}

func (s *Proc) getValues(terms []*Term) (map[*Term]uint64, bool) {
	res := map[*Term]uint64{}
	const batch = 64
	for i := 0; i < len(terms); i += batch {
		j := i + batch
		if j > len(terms) {
			j = len(terms)
		}
		var refs []string
		for _, t := range terms[i:j] {
			s.define(t)
			refs = append(refs, t.ref())
		}
		s.send(fmt.Sprintf("(get-value (%s))", strings.Join(refs, " ")))
		depth := 0
		var sb strings.Builder
		for {
			l, ok := s.readLine()
			if !ok {
				return nil, false
			}
			sb.WriteString(l + " ")
			depth += strings.Count(l, "(") - strings.Count(l, ")")
			if depth <= 0 {
				break
			}
		}
		out := sb.String()
		if strings.HasPrefix(out, "(error") {
			return nil, false
		}
		vals := parseValueList(out)
		if len(vals) != j-i {
			fmt.Fprintf(os.Stderr, "get-value parse mismatch: %d vs %d: %s\n", len(vals), j-i, out)
			return nil, false
		}
		for k, t := range terms[i:j] {
			res[t] = vals[k]
		}
	}
	return res, true
}

// parseValueList parses "((t1 #x00) (x (_ bv5 64)) (b true))" into values in order.
func parseValueList(s string) []uint64 {
	var out []uint64
	s = strings.TrimSpace(s)
	// strip outer parens
	if len(s) < 2 {
		return nil
	}
	s = s[1 : len(s)-1]
	depth := 0
	start := -1
	for i := 0; i < len(s); i++ {
		switch s[i] {
		case '(':
			if depth == 0 {
				start = i
			}
			depth++
		case ')':
			depth--
			if depth == 0 && start >= 0 {
				out = append(out, parsePairValue(s[start+1:i]))
				start = -1
			}
		}
	}
	return out
}

func parsePairValue(p string) uint64 {
	// p = "name value" where value may be #x.., #b.., (_ bvN w), true, false
	p = strings.TrimSpace(p)
	// the name may itself be parenthesised (e.g. (not t1)); value is the suffix
	if i := strings.LastIndex(p, "#x"); i >= 0 && !strings.Contains(p[i:], " ") {
		v, _ := strconv.ParseUint(p[i+2:], 16, 64)
		return v
	}
	if i := strings.LastIndex(p, "#b"); i >= 0 && !strings.Contains(p[i:], " ") {
		v, _ := strconv.ParseUint(p[i+2:], 2, 64)
		return v
	}
	if i := strings.LastIndex(p, "(_ bv"); i >= 0 {
		f := strings.Fields(p[i+5:])
		if len(f) > 0 {
			v, _ := strconv.ParseUint(f[0], 10, 64)
			return v
		}
	}
	if strings.HasSuffix(p, " true") {
		return 1
	}
	return 0
}

func (s *Proc) Close() {
	s.in.Close()
	done := make(chan struct{})
	go func() { s.cmd.Wait(); close(done) }()
	select {
	case <-done:
	case <-time.After(2 * time.Second):
		s.cmd.Process.Kill()
	}
}

// Portfolio sends each query to the primary solver with a short limit, then to the others.
type Portfolio struct {
	order    []string
	specs    map[string]solverSpec
	procs    map[string]*Proc
	cache    map[string]string
	logPfx   string
	Queries  int
	Unknown  int
	Errors   int
	// cross-check: every crossEvery-th decided query is also put to the next solver of the portfolio; a definite
	// answer that differs is a disagreement (the job is then reported as an engine error, never as success)
	crossEvery    int
	CrossChecked  int
	Disagreements int
	lastSat  *Proc // solver that answered the last sat (for Model)
	lastDecider *Proc
	queryLog []string
}

func NewPortfolio(order []string, l1, l2, l3 int, logPfx string) *Portfolio {
	return &Portfolio{order: order, specs: solverSpecs(l1, l2, l3), procs: map[string]*Proc{}, cache: map[string]string{}, logPfx: logPfx}
}

func (p *Portfolio) proc(name string) *Proc {
	if pr, ok := p.procs[name]; ok && !pr.dead {
		return pr
	}
	pr := startProc(p.specs[name], p.logPfx)
	p.procs[name] = pr
	return pr
}

func litKey(lits []*Term) (string, bool) {
	ids := make([]int, 0, len(lits))
	for _, l := range lits {
		if l.IsFalse() {
			return "", true
		}
		if l.IsTrue() {
			continue
		}
		ids = append(ids, l.id)
	}
	sort.Ints(ids)
	var sb strings.Builder
	for _, i := range ids {
		sb.WriteString(strconv.Itoa(i))
		sb.WriteByte(',')
	}
	return sb.String(), false
}

func (p *Portfolio) Check(lits []*Term) string {
	key, isFalse := litKey(lits)
	if isFalse {
		return "unsat"
	}
	if key == "" {
		return "sat"
	}
	if r, ok := p.cache[key]; ok {
		return r
	}
	p.Queries++
	res := "unknown"
	for _, name := range p.order {
		pr := p.proc(name)
		r := pr.check(lits)
		if r == "sat" || r == "unsat" {
			res = r
			p.lastDecider = pr
			if r == "sat" {
				p.lastSat = pr
			}
			break
		}
		if r == "error" {
			p.Errors++
		}
	}
	if res == "unknown" {
		p.Unknown++
	} else if p.crossEvery > 0 && p.Queries%p.crossEvery == 0 && len(p.order) > 1 {
		// ask a different solver the same question
		var decidedBy string
		for _, name := range p.order {
			if pr, ok := p.procs[name]; ok && pr == p.lastDecider {
				decidedBy = name
			}
		}
		// the checker is a different solver build that is fast on the same kind of query: z3 5.1 for answers of z3 4.8
		// (cvc5 can be two orders of magnitude slower on these logs and would dominate the run), z3 4.8 for cvc5's
		checker := map[string]string{"z3": "z3new", "cvc5": "z3", "z3new": "z3"}[decidedBy]
		for _, name := range []string{checker} {
			if name == "" || name == decidedBy {
				continue
			}
			if _, ok := p.specs[name]; !ok {
				continue
			}
			r2 := p.proc(name).check(lits)
			if r2 == "sat" || r2 == "unsat" {
				p.CrossChecked++
				if r2 != res {
					p.Disagreements++
				}
			}
			break
		}
	}
	p.cache[key] = res
	return res
}

// Model re-checks lits on a solver that can decide them and returns values of terms.
func (p *Portfolio) Model(lits []*Term, terms []*Term) map[*Term]uint64 {
	for _, name := range p.order {
		pr := p.proc(name)
		// define everything before the check: cvc5 leaves the sat state on any new definition
		for _, t := range terms {
			pr.define(t)
		}
		r := pr.check(lits)
		if r == "unsat" {
			return nil
		}
		if r != "sat" {
			continue
		}
		if m, ok := pr.getValues(terms); ok {
			return m
		}
	}
	return nil
}

func (p *Portfolio) Stats() (decided map[string]int, solverTime float64) {
	decided = map[string]int{}
	for _, pr := range p.procs {
		decided[pr.name] += pr.Decided
		solverTime += pr.Time.Seconds()
	}
	return
}

func (p *Portfolio) Close() {
	for _, pr := range p.procs {
		pr.Close()
	}
}
