package main

import (
	"strconv"
	"bufio"
	"encoding/json"
	"fmt"
	"go/ast"
	"go/parser"
	"go/token"
	"os"
	"path/filepath"
	"sort"
	"strings"
	"time"

	"golang.org/x/tools/go/packages"
	"golang.org/x/tools/go/ssa"
)

var bodyPkgs = []string{"/io/", "/bytes/", "/bufio/", "/errors/", "/encoding/binary/", "/math/bits/", "/slices/", "/strings/", "/strconv/", "/sort/",
	"/unicode/utf8/", "/hash/", "/cmp/", "/math/", "/internal/bytealg/", "/iter/", "/internal/byteorder/", "/internal/stringslite/"}

// keepBodies: function bodies are kept for /repo, the harness overlays and the small part of the standard library that is interpreted.
func keepBodies(filename string) bool {
	if strings.HasPrefix(filename, repoRoot()+"/") {
		return true
	}
	if i := strings.Index(filename, "/src/"); i >= 0 && !strings.Contains(filename, "/pkg/mod/") {
		rel := filename[i+4:]
		for _, p := range bodyPkgs {
			if strings.HasPrefix(rel, p) && !strings.Contains(rel[len(p):], "/") {
				return true
			}
		}
	}
	return false
}

// Job is one exploration: a harness entry point with concrete parameters.
type Job struct {
	ID       int               `json:"id"`
	Module   string            `json:"module"`
	Harness  string            `json:"harness"`
	Params   map[string]int64  `json:"params,omitempty"`
	Concrete map[string]uint64 `json:"concrete,omitempty"`
	TimeoutS int               `json:"timeout_s"`
	MaxPaths int               `json:"max_paths"`
	Solvers  []string          `json:"solvers,omitempty"`
	Known    []string          `json:"known,omitempty"`
	Limits   []int             `json:"limits,omitempty"` // per-query limits (ms) for z3, cvc5, z3new
	SmtLog   string            `json:"smtlog,omitempty"`
	Prefix   []tr              `json:"prefix,omitempty"` // replay a single path
	Prefixes [][]tr            `json:"prefixes,omitempty"` // explore only the subtrees below these decision prefixes
	SplitAt  int               `json:"split_at,omitempty"` // after this many paths, hand the pending subtrees back to the driver
	Root     int               `json:"root"`               // index of the job this one was split from
}

type JobResult struct {
	ID           int                 `json:"id"`
	Harness      string              `json:"harness"`
	Module       string              `json:"module"`
	Params       map[string]int64    `json:"params,omitempty"`
	Paths        int                 `json:"paths"`
	Forks        int                 `json:"forks"`
	Queries      int                 `json:"queries"`
	SolverTimeS  float64             `json:"solver_time_s"`
	DecidedBy    map[string]int      `json:"decided_by"`
	Unknown      int                 `json:"unknown"`
	CrossChecked  int                `json:"cross_checked"`
	Disagreements int                `json:"solver_disagreements"`
	Ended        map[string]int      `json:"ended"`
	Inconclusive map[string]int      `json:"inconclusive,omitempty"`
	CutThird     int                 `json:"cut_third_party"`
	Violations   []Violation         `json:"violations,omitempty"`
	Reached      map[string]*Witness `json:"reached,omitempty"`
	Funcs        []string            `json:"funcs,omitempty"`
	Stubs        []string            `json:"stubs,omitempty"`
	Assumes      []string            `json:"assumes,omitempty"`
	WallS        float64             `json:"wall_s"`
	Complete     bool                `json:"complete"`
	Terms        int                 `json:"terms"`
	Error        string              `json:"error,omitempty"`
	Pending      [][]tr              `json:"pending,omitempty"`
}

type loaded struct {
	prog *ssa.Program
	pkg  *ssa.Package
}

// repoRoot is /repo. VERIF_REPO points the machinery at a scratch worktree instead; that is only used when
// trying the checks on seeded changes (tools/seedcheck.py), never by a registered command.
func repoRoot() string {
	if r := os.Getenv("VERIF_REPO"); r != "" {
		return r
	}
	return "/repo"
}

// outRoot: where work/ and evidence/ go (VERIF_OUT redirects them for seeded-change trials so that committed
// evidence only ever comes from runs against /repo).
func outRoot() string {
	if r := os.Getenv("VERIF_OUT"); r != "" {
		return r
	}
	return verifRoot()
}

var moduleDirs = map[string]string{
	"mcap":    repoRoot() + "/go/mcap",
	"ros":     repoRoot() + "/go/ros",
	"ros1msg": repoRoot() + "/go/ros/ros1msg",
}

func repoEnv() []string {
	env := []string{}
	for _, kv := range os.Environ() {
		if strings.HasPrefix(kv, "GOFLAGS=") || strings.HasPrefix(kv, "GOPROXY=") || strings.HasPrefix(kv, "GOSUMDB=") || strings.HasPrefix(kv, "GOTOOLCHAIN=") || strings.HasPrefix(kv, "GOWORK=") {
			continue
		}
		env = append(env, kv)
	}
	return append(env, "GOPROXY=off", "GOSUMDB=off", "GOTOOLCHAIN=local")
}

func harnessOverlay(module string, withTests bool) (map[string]string, error) {
	hdir := filepath.Join(verifRoot(), "harness", module)
	ents, err := os.ReadDir(hdir)
	if err != nil {
		return nil, err
	}
	out := map[string]string{}
	for _, e := range ents {
		if !strings.HasSuffix(e.Name(), ".go") {
			continue
		}
		if strings.HasSuffix(e.Name(), "_test.go") && !withTests {
			continue
		}
		out[filepath.Join(moduleDirs[module], e.Name())] = filepath.Join(hdir, e.Name())
	}
	return out, nil
}

func verifRoot() string {
	if r := os.Getenv("VERIF_ROOT"); r != "" {
		return r
	}
	return "/verif"
}

func loadModule(module string) (*loaded, error) {
	dir, ok := moduleDirs[module]
	if !ok {
		return nil, fmt.Errorf("unknown module %s", module)
	}
	ov, err := harnessOverlay(module, false)
	if err != nil {
		return nil, err
	}
	overlay := map[string][]byte{}
	for virt, real := range ov {
		b, err := os.ReadFile(real)
		if err != nil {
			return nil, err
		}
		overlay[virt] = b
	}
	fset := token.NewFileSet()
	cfg := &packages.Config{Mode: packages.LoadAllSyntax, Dir: dir, Env: repoEnv(), Overlay: overlay, BuildFlags: []string{"-tags=verif"}, Fset: fset,
		ParseFile: func(fset *token.FileSet, filename string, src []byte) (*ast.File, error) {
			f, err := parser.ParseFile(fset, filename, src, parser.SkipObjectResolution)
			if err != nil || f == nil {
				return f, err
			}
			if !keepBodies(filename) {
				// code the engine never interprets (third-party codecs, runtime, reflect, os, ...): keep the
				// declarations, drop the bodies — type checking and SSA construction of them is most of the load time
				for _, d := range f.Decls {
					if fd, ok := d.(*ast.FuncDecl); ok && fd.Name.Name != "init" {
						fd.Body = nil
					}
				}
			}
			return f, nil
		}}
	pkgs, err := packages.Load(cfg, ".")
	if err != nil {
		return nil, err
	}
	nerr := 0
	var sb strings.Builder
	packages.Visit(pkgs, nil, func(p *packages.Package) {
		for _, e := range p.Errors {
			if strings.Contains(e.Msg, "and not used") || strings.Contains(e.Msg, "missing function body") || strings.Contains(e.Msg, "missing return") {
				continue // artefacts of dropped bodies in packages that are never interpreted
			}
			nerr++
			fmt.Fprintln(&sb, e)
		}
	})
	if nerr > 0 {
		return nil, fmt.Errorf("package load errors:\n%s", sb.String())
	}
	// (ssautil.AllPackages would skip everything marked IllTyped by the benign errors above)
	prog := ssa.NewProgram(fset, ssa.InstantiateGenerics)
	var root *ssa.Package
	seen := map[*packages.Package]bool{}
	var visit func(p *packages.Package)
	visit = func(p *packages.Package) {
		if seen[p] {
			return
		}
		seen[p] = true
		for _, imp := range p.Imports {
			visit(imp)
		}
		if p.Types != nil && p.TypesInfo != nil {
			sp := prog.CreatePackage(p.Types, p.Syntax, p.TypesInfo, true)
			if p == pkgs[0] {
				root = sp
			}
		}
	}
	visit(pkgs[0])
	if root == nil {
		return nil, fmt.Errorf("no SSA package for %s", module)
	}
	prog.Build()
	return &loaded{prog: prog, pkg: root}, nil
}

func resetTerms() {
	termTab = map[tkey]*Term{}
	selMemo = map[[2]int]*Term{}
	termList = nil
	strConsts = map[string]Str{}
	i64_0 = BV(64, 0)
	idealCRC = false
	errCount = 0
}

func runJob(ld *loaded, job *Job) *JobResult {
	t0 := time.Now()
	resetTerms()
	res := &JobResult{ID: job.ID, Harness: job.Harness, Module: job.Module, Params: job.Params}
	fn := ld.pkg.Func(job.Harness)
	if fn == nil {
		res.Error = "no harness function " + job.Harness
		return res
	}
	order := job.Solvers
	if len(order) == 0 {
		order = []string{"z3", "cvc5", "z3new"} // z3new (60 s) is only started when both others say unknown
	}
	lim := []int{2000, 10000, 60000}
	for i := range job.Limits {
		if i < 3 && job.Limits[i] > 0 {
			lim[i] = job.Limits[i]
		}
	}
	pf := NewPortfolio(order, lim[0], lim[1], lim[2], job.SmtLog)
	pf.crossEvery = 128
	if v := os.Getenv("VERIF_CROSSCHECK"); v != "" {
		if n, err := strconv.Atoi(v); err == nil {
			pf.crossEvery = n
		}
	}
	defer pf.Close()
	ex := NewExplorer(pf)
	for _, k := range job.Known {
		ex.known[k] = true
	}
	if job.TimeoutS > 0 {
		ex.deadline = t0.Add(time.Duration(job.TimeoutS) * time.Second)
	}
	maxPaths := job.MaxPaths
	if maxPaths == 0 {
		maxPaths = 200000
	}
	if job.Prefix != nil {
		ex.work = [][]tr{job.Prefix}
		maxPaths = 1
	} else if job.Prefixes != nil {
		ex.work = append(ex.work, job.Prefixes...)
	} else {
		ex.work = [][]tr{{}}
	}
	complete := true
	for len(ex.work) > 0 {
		if job.SplitAt > 0 && ex.paths >= job.SplitAt && len(ex.work) > 1 {
			res.Pending = ex.work
			ex.work = nil
			break
		}
		if ex.paths >= maxPaths {
			complete = false
			ex.inconcl["path budget exhausted"]++
			break
		}
		if !ex.deadline.IsZero() && time.Now().After(ex.deadline) {
			complete = false
			ex.inconcl["job time budget exhausted"]++
			break
		}
		prefix := ex.work[len(ex.work)-1]
		ex.work = ex.work[:len(ex.work)-1]
		runPath(ld, fn, ex, job, prefix)
	}
	if len(ex.inconcl) > 0 {
		complete = false
	}
	res.Paths = ex.paths
	res.Forks = ex.forks
	res.Queries = pf.Queries
	res.DecidedBy, res.SolverTimeS = pf.Stats()
	res.Unknown = pf.Unknown
	res.CrossChecked, res.Disagreements = pf.CrossChecked, pf.Disagreements
	if pf.Disagreements > 0 && res.Error == "" {
		res.Error = fmt.Sprintf("SOLVER-DISAGREEMENT: %d of %d cross-checked queries were decided differently by two solvers", pf.Disagreements, pf.CrossChecked)
	}
	res.Ended = ex.ended
	res.Inconclusive = ex.inconcl
	res.CutThird = ex.cutThird
	res.Violations = ex.viol
	res.Reached = ex.reached
	for f := range ex.funcs {
		res.Funcs = append(res.Funcs, f)
	}
	sort.Strings(res.Funcs)
	for f := range ex.stubs {
		res.Stubs = append(res.Stubs, f)
	}
	sort.Strings(res.Stubs)
	for f := range ex.assumes {
		res.Assumes = append(res.Assumes, f)
	}
	sort.Strings(res.Assumes)
	res.WallS = time.Since(t0).Seconds()
	res.Complete = complete
	res.Terms = len(termList)
	return res
}

func runPath(ld *loaded, fn *ssa.Function, ex *Explorer, job *Job, prefix []tr) {
	m := &Machine{prog: ld.prog, pkg: ld.pkg, globals: map[*ssa.Global]*Value{}, inited: map[*ssa.Package]bool{}, ex: ex,
		maxSteps: 3_000_000, params: job.Params, concrete: job.Concrete, onceDone: map[*Value]bool{}}
	ex.m = m
	ex.pc = nil
	ex.prefix = prefix
	ex.trace = nil
	ex.decisions = nil
	ex.observed = nil
	ex.freeMaps = false
	ex.allocMax = 1<<31 - 1
	idealCRC = false
	ex.paths++
	defer func() {
		if r := recover(); r != nil {
			switch p := r.(type) {
			case *GoPanic:
				ex.ended["panic"]++
				ex.report("panic", p.kind+": "+p.msg, m.posStr(p.pos), p.fn, ex.knownSite("panic", p.fn))
			case *ExitEvent:
				ex.ended["exit"]++
				ex.report("exit", p.msg, m.posStr(p.pos), p.fn, ex.knownSite("exit", p.fn))
			case *PathEnd:
				ex.ended["end:"+p.why]++
			case *CutPath:
				ex.cutThird++
				ex.ended["cut"]++
			case *Inconclusive:
				ex.ended["inconclusive"]++
				ex.inconcl[p.why]++
				if os.Getenv("TRACE") != "" {
					fmt.Fprintln(os.Stderr, "INCONCLUSIVE:", p.why, "stack:", m.stack)
				}
			default:
				panic(r)
			}
		}
	}()
	m.call(nil, fn, nil, 0)
	ex.ended["ok"]++
}

// workerMain: load one module, then serve jobs from stdin (one JSON per line), results to stdout.
func workerMain(module string) {
	ld, err := loadModule(module)
	out := bufio.NewWriter(os.Stdout)
	enc := json.NewEncoder(out)
	if err != nil {
		enc.Encode(map[string]string{"fatal": err.Error()})
		out.Flush()
		os.Exit(3)
	}
	enc.Encode(map[string]string{"ready": module})
	out.Flush()
	sc := bufio.NewScanner(os.Stdin)
	sc.Buffer(make([]byte, 1<<20), 1<<26)
	for sc.Scan() {
		var job Job
		if err := json.Unmarshal(sc.Bytes(), &job); err != nil {
			enc.Encode(map[string]string{"fatal": "bad job: " + err.Error()})
			out.Flush()
			continue
		}
		var res *JobResult
		func() {
			defer func() {
				if r := recover(); r != nil {
					res = &JobResult{ID: job.ID, Harness: job.Harness, Module: job.Module, Params: job.Params, Error: fmt.Sprintf("engine panic: %v", r)}
				}
			}()
			res = runJob(ld, &job)
		}()
		enc.Encode(res)
		out.Flush()
	}
}
