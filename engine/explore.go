package main

import (
	"fmt"
	"os"
	"sort"
	"strings"
	"time"
)

var debugBr = os.Getenv("DEBUGBR") != ""

// Violation is a solver-found counterexample (assertion, panic, exit, allocation, unwinding).
type Violation struct {
	Kind      string            `json:"kind"` // assert | panic | exit | alloc | unwind
	Label     string            `json:"label"`
	Where     string            `json:"where"`
	Func      string            `json:"func"`
	Known     string            `json:"known,omitempty"` // id of the known finding it matches, if any
	Inputs    map[string]string `json:"inputs"`          // scalar inputs: name -> decimal
	Bytes     map[string]string `json:"bytes"`           // byte-array inputs: name -> hex
	Decisions []int             `json:"decisions"`
}

type Witness struct {
	Label    string            `json:"label"`
	Inputs   map[string]string `json:"inputs"`
	Bytes    map[string]string `json:"bytes"`
	Observed []string          `json:"observed,omitempty"` // "label=value" expected natively
}

type byteInput struct {
	arr *Term
	n   *Term
	max int
}

// tr is one entry of a path trace: every solver-decided event of a path, so that a prefix can be
// re-executed without asking the solver again.
//   K=0 forced branch (V = direction), K=1 fork decision (V = chosen alternative, N = arity), K=2 model value V
type tr struct {
	K uint8  `json:"k"`
	V uint64 `json:"v"`
	N int    `json:"n,omitempty"`
}

type Explorer struct {
	s         *Portfolio
	pc        []*Term
	prefix    []tr
	trace     []tr
	decisions []int
	work      [][]tr
	inputs    []*Term
	inputSeen map[*Term]bool
	byteIns   []byteInput
	viol      []Violation
	violSeen  map[string]bool
	paths     int
	forks     int
	ended     map[string]int
	inconcl   map[string]int
	reached   map[string]*Witness
	reachWant map[string]bool
	assumes   map[string]bool
	stubs     map[string]bool
	funcs     map[string]bool
	known     map[string]bool // listed known-finding ids
	knownHit  map[string]string
	modelVals map[string]uint64
	allocMax  uint64
	observed  []obsRec
	deadline  time.Time
	freeMaps  bool
	cutThird  int
	m         *Machine
}

type obsRec struct {
	label string
	t     *Term
}

func NewExplorer(s *Portfolio) *Explorer {
	return &Explorer{s: s, inputSeen: map[*Term]bool{}, violSeen: map[string]bool{}, ended: map[string]int{},
		inconcl: map[string]int{}, reached: map[string]*Witness{}, reachWant: map[string]bool{}, assumes: map[string]bool{}, stubs: map[string]bool{},
		funcs: map[string]bool{}, known: map[string]bool{}, knownHit: map[string]string{},
		modelVals: map[string]uint64{}, allocMax: 1<<31 - 1}
}

// Inconclusive ends the path without a verdict.
type Inconclusive struct{ why string }

func (e *Explorer) check(extra ...*Term) string {
	lits := append(append(make([]*Term, 0, len(e.pc)+len(extra)), e.pc...), extra...)
	r := e.s.Check(lits)
	if !e.deadline.IsZero() && time.Now().After(e.deadline) {
		panic(&Inconclusive{"job time budget exhausted"})
	}
	return r
}

func (e *Explorer) replaying() bool { return len(e.trace) < len(e.prefix) }

func (e *Explorer) next(kind uint8) tr {
	t := e.prefix[len(e.trace)]
	if t.K != kind {
		panic(&Inconclusive{"re-execution diverged from its recorded trace"})
	}
	e.trace = append(e.trace, t)
	return t
}

func (e *Explorer) decide(n int) int {
	if e.replaying() {
		t := e.next(1)
		e.decisions = append(e.decisions, int(t.V))
		return int(t.V)
	}
	e.forks += n
	for alt := n - 1; alt >= 1; alt-- {
		p := append(append(make([]tr, 0, len(e.trace)+1), e.trace...), tr{K: 1, V: uint64(alt), N: n})
		e.work = append(e.work, p)
	}
	e.trace = append(e.trace, tr{K: 1, V: 0, N: n})
	e.decisions = append(e.decisions, 0)
	return 0
}

// Branch returns the direction taken for condition c on this path. The path condition is
// satisfiable by invariant, so when one side is unsat the other needs no query.
func (e *Explorer) Branch(c *Term, where string) bool {
	if c.IsTrue() {
		return true
	}
	if c.IsFalse() {
		return false
	}
	if e.replaying() {
		t := e.prefix[len(e.trace)]
		if t.K == 0 {
			e.trace = append(e.trace, t)
			return t.V == 1
		}
		d := e.decide(2)
		if d == 0 {
			e.pc = append(e.pc, c)
			return true
		}
		e.pc = append(e.pc, Not(c))
		return false
	}
	rt := e.check(c)
	if rt == "unknown" {
		panic(&Inconclusive{"solver unknown at " + where})
	}
	if rt == "unsat" {
		e.trace = append(e.trace, tr{K: 0, V: 0})
		return false
	}
	rf := e.check(Not(c))
	if rf == "unknown" {
		panic(&Inconclusive{"solver unknown at " + where})
	}
	if debugBr {
		fmt.Fprintf(os.Stderr, "    br %s t=%v f=%v q=%d\n", where, rt, rf, e.s.Queries)
		if os.Getenv("DEBUGBR") == "2" && rf != "unsat" {
			fmt.Fprintf(os.Stderr, "       cond: %s\n", c.Dump(6))
		}
	}
	if rf == "unsat" {
		e.trace = append(e.trace, tr{K: 0, V: 1})
		return true
	}
	d := e.decide(2)
	if d == 0 {
		e.pc = append(e.pc, c)
		return true
	}
	e.pc = append(e.pc, Not(c))
	return false
}

func (e *Explorer) feasible(c *Term, where string) bool {
	if c.IsTrue() {
		return true
	}
	if c.IsFalse() {
		return false
	}
	if e.replaying() {
		return e.next(0).V == 1
	}
	r := e.check(c)
	if r == "unknown" {
		panic(&Inconclusive{"solver unknown at " + where})
	}
	v := uint64(0)
	if r == "sat" {
		v = 1
	}
	e.trace = append(e.trace, tr{K: 0, V: v})
	return r == "sat"
}

func (e *Explorer) Assume(c *Term, where string) {
	if c.IsTrue() {
		return
	}
	if !e.feasible(c, "assume "+where) {
		panic(&PathEnd{"assumption infeasible"})
	}
	e.pc = append(e.pc, c)
}

func (e *Explorer) pcKey() string {
	k, _ := litKey(e.pc)
	return k
}

func (e *Explorer) modelValue(t *Term) uint64 {
	if e.replaying() {
		return e.next(2).V
	}
	v := e.modelValue1(t)
	e.trace = append(e.trace, tr{K: 2, V: v})
	return v
}

func (e *Explorer) modelValue1(t *Term) uint64 {
	key := e.pcKey() + "|" + fmt.Sprint(t.id)
	if v, ok := e.modelVals[key]; ok {
		return v
	}
	m := e.s.Model(e.pc, []*Term{t})
	if m == nil {
		panic(&Inconclusive{"no model for concretisation"})
	}
	v := m[t]
	e.modelVals[key] = v
	return v
}

// Concretize forks over all feasible values of t (case split), up to max distinct values.
func (e *Explorer) Concretize(t *Term, max int, what string) int {
	if t.IsConst() {
		return int(sext(t.val, t.w))
	}
	if max > 256 {
		max = 256
	}
	for n := 0; n <= max; n++ {
		v := e.modelValue(t)
		if e.Branch(Eq(t, BV(t.w, v)), "concretize "+what) {
			return int(sext(v, t.w))
		}
	}
	panic(&Inconclusive{"concretisation cap exceeded for " + what})
}

func (e *Explorer) ConcretizeIdx(t *Term, n int, where string) int {
	if t.IsConst() {
		return int(sext(t.val, t.w))
	}
	if e.Branch(Not(Cmp("bvult", t, I64(int64(n)))), where+" idx-range") {
		return -1
	}
	return e.Concretize(t, n, "index "+where)
}

// UpperBound finds (by binary search with the solver) the maximum of min(a,b) under the path condition, up to 4096.
func (e *Explorer) UpperBound(a, b *Term) int {
	if a.IsConst() && b.IsConst() {
		if sext(a.val, 64) < sext(b.val, 64) {
			return int(a.val)
		}
		return int(b.val)
	}
	if a.IsConst() {
		return int(a.val)
	}
	if b.IsConst() {
		return int(b.val)
	}
	mn := Ite(Cmp("bvslt", a, b), a, b)
	lo, hi := 0, 4096
	if e.feasible(Cmp("bvslt", I64(int64(hi)), mn), "upper bound") {
		panic(&Inconclusive{"unbounded symbolic length"})
	}
	for lo < hi {
		mid := (lo + hi) / 2
		if e.feasible(Cmp("bvslt", I64(int64(mid)), mn), "upper bound") {
			lo = mid + 1
		} else {
			hi = mid
		}
	}
	return lo
}

func (e *Explorer) UpperBoundHint(n *Term, sizes ...*Term) int {
	if n.IsConst() {
		return int(n.val)
	}
	best := -1
	for _, s := range sizes {
		if s != nil && s.IsConst() && (best < 0 || int(s.val) < best) {
			best = int(s.val)
		}
	}
	if best >= 0 && best <= 1<<12 {
		return best
	}
	return e.UpperBound(n, n)
}

func (e *Explorer) Permutation(n int) []int {
	rest := make([]int, n)
	for i := range rest {
		rest[i] = i
	}
	if !e.freeMaps {
		return rest
	}
	var out []int
	for len(rest) > 0 {
		d := 0
		if len(rest) > 1 {
			d = e.decide(len(rest))
		}
		out = append(out, rest[d])
		rest = append(rest[:d:d], rest[d+1:]...)
	}
	return out
}

func (e *Explorer) AddInput(t *Term) {
	if !e.inputSeen[t] {
		e.inputSeen[t] = true
		e.inputs = append(e.inputs, t)
	}
}

func (e *Explorer) AddByteInput(arr, n *Term, max int) {
	if !e.inputSeen[arr] {
		e.inputSeen[arr] = true
		e.byteIns = append(e.byteIns, byteInput{arr, n, max})
	}
}

// extract builds the concrete input assignment for the current path condition (+extra).
func (e *Explorer) extract(extra ...*Term) (map[string]string, map[string]string, map[*Term]uint64, bool) {
	lits := append(append([]*Term{}, e.pc...), extra...)
	var terms []*Term
	for _, in := range e.inputs {
		terms = append(terms, in)
	}
	for _, b := range e.byteIns {
		terms = append(terms, b.n)
	}
	for _, o := range e.observed {
		if !o.t.IsConst() {
			terms = append(terms, o.t)
		}
	}
	m := e.s.Model(lits, terms)
	if m == nil {
		return nil, nil, nil, false
	}
	// second round: byte contents, with lengths from the first model pinned
	var pins []*Term
	var bterms []*Term
	type rng struct {
		b byteInput
		n int
	}
	var rs []rng
	for _, b := range e.byteIns {
		n := int(b.n.val)
		if !b.n.IsConst() {
			n = int(m[b.n])
			pins = append(pins, Eq(b.n, BV(64, uint64(n))))
		}
		if n > b.max {
			n = b.max
		}
		if n < 0 {
			n = 0
		}
		rs = append(rs, rng{b, n})
		for i := 0; i < n; i++ {
			bterms = append(bterms, Select(b.arr, I64(int64(i))))
		}
	}
	for _, in := range e.inputs {
		if in.w > 0 {
			pins = append(pins, Eq(in, BV(in.w, m[in])))
		} else if m[in] != 0 {
			pins = append(pins, in)
		} else {
			pins = append(pins, Not(in))
		}
	}
	bytesOut := map[string]string{}
	if len(bterms) > 0 {
		var nonconst []*Term
		for _, t := range bterms {
			if !t.IsConst() {
				nonconst = append(nonconst, t)
			}
		}
		all := append(append([]*Term{}, terms...), nonconst...)
		m2 := e.s.Model(append(lits, pins...), all)
		if m2 == nil {
			return nil, nil, nil, false
		}
		for k, v := range m2 {
			m[k] = v
		}
		k := 0
		for _, r := range rs {
			var sb strings.Builder
			for i := 0; i < r.n; i++ {
				t := bterms[k]
				k++
				v := t.val
				if !t.IsConst() {
					v = m2[t]
				}
				fmt.Fprintf(&sb, "%02x", v&0xff)
			}
			bytesOut[r.b.arr.name] = sb.String()
		}
	} else {
		for _, r := range rs {
			bytesOut[r.b.arr.name] = ""
		}
	}
	ins := map[string]string{}
	for _, in := range e.inputs {
		ins[in.name] = fmt.Sprint(m[in])
	}
	return ins, bytesOut, m, true
}

func (e *Explorer) report(kind, label, where, fn string, known string, extra ...*Term) {
	key := kind + "@" + where + "#" + label + "#" + known
	if e.violSeen[key] {
		return
	}
	e.violSeen[key] = true
	ins, bs, _, ok := e.extract(extra...)
	if !ok {
		e.inconcl["no model for violation at "+where]++
		return
	}
	e.viol = append(e.viol, Violation{Kind: kind, Label: label, Where: where, Func: fn, Known: known, Inputs: ins, Bytes: bs,
		Decisions: append([]int{}, e.decisions...)})
}

// Assert checks c on this path. If knownID is a listed known finding, carve describes the inputs of that
// finding: violations inside the carve are reported as KNOWN, outside as new.
func (e *Explorer) Assert(c *Term, label, where string, knownID string, carve *Term) {
	if c.IsTrue() {
		return
	}
	nc := Not(c)
	fn := ""
	if e.m != nil {
		fn = e.m.curFn
	}
	if knownID != "" && e.known[knownID] && carve != nil {
		if e.feasible(And(nc, carve), "assert-known "+label) {
			e.report("assert", label, where, fn, knownID, nc, carve)
		}
		if e.feasible(And(nc, Not(carve)), "assert "+label) {
			e.report("assert", label, where, fn, "", nc, Not(carve))
		}
	} else if e.feasible(nc, "assert "+label) {
		e.report("assert", label, where, fn, "", nc)
	}
	// continue under the assumption that it held
	if !c.IsFalse() && e.feasible(c, "assert-cont "+label) {
		e.pc = append(e.pc, c)
	} else {
		panic(&PathEnd{"assert always fails"})
	}
}

func (e *Explorer) NoteAlloc(size *Term, where, fn string, limit uint64) {
	// allocations made by the harness's own doubles (sink, source, copies) are not the library's
	if strings.HasPrefix(where, "zz_verif_") {
		return
	}
	if limit == 0 {
		limit = e.allocMax
	}
	if size.IsConst() {
		if size.val > limit && sext(size.val, 64) > 0 {
			e.report("alloc", fmt.Sprintf("allocation of %d bytes", size.val), where, fn, e.knownSite("alloc", fn))
		}
		return
	}
	big := And(Cmp("bvult", BV(64, limit), size), Cmp("bvsle", i64_0, size))
	if e.feasible(big, "alloc "+where) {
		// prefer a model that exceeds the ceiling by a wide margin: the native replay can only measure total bytes
		// allocated, so a request a few bytes above a small ceiling could not be told from noise
		if limit < 1<<30 {
			wide := And(Cmp("bvult", BV(64, 4*limit+65536), size), Cmp("bvsle", i64_0, size))
			if e.feasible(wide, "alloc-wide "+where) {
				big = wide
			}
		}
		e.report("alloc", "allocation size can exceed ceiling", where, fn, e.knownSite("alloc", fn), big)
	}
}

// knownSite returns the id of a listed known finding matching an implicit event (panic/alloc/exit) site.
func (e *Explorer) knownSite(kind, fn string) string {
	id := "site:" + kind + ":" + fn
	if e.known[id] {
		return id
	}
	return ""
}

func (e *Explorer) Reach(label string) {
	if _, ok := e.reached[label]; ok {
		return
	}
	ins, bs, m, ok := e.extract()
	if !ok {
		return
	}
	w := &Witness{Label: label, Inputs: ins, Bytes: bs}
	for _, o := range e.observed {
		v := o.t.val
		if !o.t.IsConst() {
			v = m[o.t]
		}
		w.Observed = append(w.Observed, fmt.Sprintf("%s=%d", o.label, v))
	}
	e.reached[label] = w
}

func sortedKeys(m map[string]int) []string {
	var ks []string
	for k := range m {
		ks = append(ks, k)
	}
	sort.Strings(ks)
	return ks
}
