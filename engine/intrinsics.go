package main

import (
	"regexp"
	"fmt"
	"go/token"
	"go/types"
	"strings"

	"golang.org/x/tools/go/ssa"
)

var errType = types.Universe.Lookup("error").Type()
var errCount int

func newErr(msg string, wraps ...Value) Iface {
	errCount++
	return Iface{t: errType, v: &OpaqueErr{msg: msg, wraps: wraps, id: errCount}}
}

// concreteString returns the Go string of s when its length and all bytes are constants.
func (m *Machine) concreteString(s Str) (string, bool) {
	if s.n == nil || !s.n.IsConst() {
		return "", false
	}
	n := int(s.n.val)
	b := make([]byte, n)
	for i := 0; i < n; i++ {
		t := Select(s.arr, Bin("bvadd", s.off, I64(int64(i))))
		if !t.IsConst() {
			return "", false
		}
		b[i] = byte(t.val)
	}
	return string(b), true
}

func (m *Machine) goString(s Str) string {
	if !s.n.IsConst() {
		return "<symbolic>"
	}
	n := int(s.n.val)
	b := make([]byte, n)
	for i := range b {
		t := Select(s.arr, Bin("bvadd", s.off, I64(int64(i))))
		if !t.IsConst() {
			return "<symbolic>"
		}
		b[i] = byte(t.val)
	}
	return string(b)
}

type CRCState struct{ st *Term }

func crcFold(st *Term, arr, off *Term, n int) *Term {
	for i := 0; i < n; i++ {
		st = UF("crc_step", 32, st, Select(arr, Bin("bvadd", off, I64(int64(i)))))
	}
	return st
}

func crcUpdate(st *Term, b BSlice) *Term {
	if b.obj == nil {
		return st
	}
	if b.n.IsConst() {
		return crcFold(st, b.obj.arr, b.off, int(b.n.val))
	}
	return UF("crc_upd", 32, st, b.obj.arr, b.off, b.n)
}

func crcFinal(st *Term) *Term {
	if st.IsConst() {
		return BV(32, 0)
	}
	return UF("crc_fin", 32, st)
}

type intrFn func(m *Machine, caller *frame, fn *ssa.Function, args []Value, pos token.Pos) Value

var intrCache = map[*ssa.Function]intrFn{}
var intrCached = map[*ssa.Function]bool{}

func (m *Machine) intrinsic(caller *frame, fn *ssa.Function, args []Value, pos token.Pos) (Value, bool) {
	f, ok := intrCache[fn]
	if !ok && !intrCached[fn] {
		f = lookupIntrinsic(fn)
		intrCache[fn] = f
		intrCached[fn] = true
	}
	if f == nil {
		return nil, false
	}
	m.ex.stubs[stubName(fn)] = true
	return f(m, caller, fn, args, pos), true
}

func stubName(fn *ssa.Function) string {
	n := fnName(fn)
	if fn.Pkg != nil && strings.HasPrefix(fn.Name(), "v") && len(fn.Name()) > 1 && fn.Name()[1] >= 'A' && fn.Name()[1] <= 'Z' {
		return "harness:" + fn.Name()
	}
	return n
}

var thirdParty = []string{"github.com/klauspost/compress", "github.com/pierrec/lz4", "compress/bzip2", "github.com/mattn/go-sqlite3", "database/sql"}

func lookupIntrinsic(fn *ssa.Function) intrFn {
	name := fnName(fn)
	if fn.Pkg != nil && len(fn.Name()) > 1 && fn.Name()[0] == 'v' && fn.Name()[1] >= 'A' && fn.Name()[1] <= 'Z' && fn.Signature.Recv() == nil {
		if f, ok := harnessIntrinsics[fn.Name()]; ok {
			return f
		}
	}
	if f, ok := stdIntrinsics[name]; ok {
		return f
	}
	pkgPath := ""
	if fn.Pkg != nil {
		pkgPath = fn.Pkg.Pkg.Path()
	} else if fn.Signature.Recv() != nil {
		// method of a type in a package without ssa body
		t := fn.Signature.Recv().Type()
		if p, ok := t.(*types.Pointer); ok {
			t = p.Elem()
		}
		if n, ok := t.(*types.Named); ok && n.Obj().Pkg() != nil {
			pkgPath = n.Obj().Pkg().Path()
		}
	}
	for _, tp := range thirdParty {
		if strings.HasPrefix(pkgPath, tp) {
			return func(m *Machine, caller *frame, fn *ssa.Function, args []Value, pos token.Pos) Value {
				panic(&CutPath{"third-party " + fnName(fn)})
			}
		}
	}
	return nil
}

func symScalar(w int) intrFn {
	return func(m *Machine, caller *frame, fn *ssa.Function, args []Value, pos token.Pos) Value {
		name := m.goString(args[0].(Str))
		if v, ok := m.concrete[name]; ok {
			return BV(w, v)
		}
		v := Var(sanitize(name), w)
		m.ex.AddInput(v)
		return v
	}
}

func sanitize(n string) string {
	var sb strings.Builder
	for _, c := range n {
		if (c >= 'a' && c <= 'z') || (c >= 'A' && c <= 'Z') || (c >= '0' && c <= '9') || c == '_' {
			sb.WriteRune(c)
		} else {
			sb.WriteByte('_')
		}
	}
	return "in_" + sb.String()
}

var harnessIntrinsics map[string]intrFn

func init() {
	harnessIntrinsics = map[string]intrFn{
		"vSymU64": symScalar(64), "vSymU32": symScalar(32), "vSymU16": symScalar(16), "vSymU8": symScalar(8), "vSymInt": symScalar(64),
		"vSymBool": func(m *Machine, caller *frame, fn *ssa.Function, args []Value, pos token.Pos) Value {
			name := m.goString(args[0].(Str))
			if v, ok := m.concrete[name]; ok {
				return Bool(v != 0)
			}
			v := Var(sanitize(name), 0)
			m.ex.AddInput(v)
			return v
		},
		// vSymBytes(name, n, max): fresh byte object of (possibly symbolic) length n <= max
		"vSymBytes": func(m *Machine, caller *frame, fn *ssa.Function, args []Value, pos token.Pos) Value {
			name := m.goString(args[0].(Str))
			a := ArrVar(sanitize(name))
			n := args[1].(*Term)
			mx := args[2].(*Term)
			if !mx.IsConst() {
				panic(&Inconclusive{"vSymBytes max must be concrete"})
			}
			m.ex.Assume(And(Cmp("bvsle", i64_0, n), Cmp("bvsle", n, mx)), "vSymBytes len")
			m.ex.AddByteInput(a, n, int(mx.val))
			m.objCount++
			return BSlice{&ByteObj{arr: a, size: n, id: m.objCount}, i64_0, n, n}
		},
		"vParam": func(m *Machine, caller *frame, fn *ssa.Function, args []Value, pos token.Pos) Value {
			name := m.goString(args[0].(Str))
			v, ok := m.params[name]
			if !ok {
				panic(&Inconclusive{"missing job parameter " + name})
			}
			return I64(v)
		},
		"vN": func(m *Machine, caller *frame, fn *ssa.Function, args []Value, pos token.Pos) Value {
			name := m.goString(args[0].(Str))
			i := args[1].(*Term)
			if !i.IsConst() {
				panic(&Inconclusive{"vN index must be concrete"})
			}
			return m.strConst(fmt.Sprintf("%s%d", name, int64(i.val)))
		},
		"vAssume": func(m *Machine, caller *frame, fn *ssa.Function, args []Value, pos token.Pos) Value {
			m.ex.assumes[m.posStr(pos)] = true
			m.ex.Assume(args[0].(*Term), m.posStr(pos))
			return nil
		},
		"vAssert": func(m *Machine, caller *frame, fn *ssa.Function, args []Value, pos token.Pos) Value {
			m.ex.Assert(args[0].(*Term), m.goString(args[1].(Str)), m.posStr(pos), "", nil)
			return nil
		},
		"vAssertExcept": func(m *Machine, caller *frame, fn *ssa.Function, args []Value, pos token.Pos) Value {
			m.ex.Assert(args[0].(*Term), m.goString(args[1].(Str)), m.posStr(pos), m.goString(args[2].(Str)), args[3].(*Term))
			return nil
		},
		"vKnown": func(m *Machine, caller *frame, fn *ssa.Function, args []Value, pos token.Pos) Value {
			return Bool(m.ex.known[m.goString(args[0].(Str))])
		},
		"vReach": func(m *Machine, caller *frame, fn *ssa.Function, args []Value, pos token.Pos) Value {
			m.ex.Reach(m.goString(args[0].(Str)))
			return nil
		},
		"vObserve": func(m *Machine, caller *frame, fn *ssa.Function, args []Value, pos token.Pos) Value {
			m.ex.observed = append(m.ex.observed, obsRec{m.goString(args[0].(Str)), args[1].(*Term)})
			return nil
		},
		"vIdealCRC": func(m *Machine, caller *frame, fn *ssa.Function, args []Value, pos token.Pos) Value {
			idealCRC = true
			return nil
		},
		"vFreeMapOrder": func(m *Machine, caller *frame, fn *ssa.Function, args []Value, pos token.Pos) Value {
			m.ex.freeMaps = args[0].(*Term).IsTrue()
			return nil
		},
		"vAllocLimit": func(m *Machine, caller *frame, fn *ssa.Function, args []Value, pos token.Pos) Value {
			t := args[0].(*Term)
			if t.IsConst() {
				m.ex.allocMax = t.val
			}
			return nil
		},
		// vFork(c): decide c by forking on it (never if-converted into an ite); returns a concrete bool
		"vFork": func(m *Machine, caller *frame, fn *ssa.Function, args []Value, pos token.Pos) Value {
			c := args[0].(*Term)
			if c.IsConst() {
				return c
			}
			return Bool(m.ex.Branch(c, m.posStr(pos)))
		},
		// vConcretize(x, max): case-split x into its feasible concrete values (at most max)
		"vConcretize": func(m *Machine, caller *frame, fn *ssa.Function, args []Value, pos token.Pos) Value {
			mx := args[1].(*Term)
			cap := 256
			if mx.IsConst() && int(mx.val) > 0 && int(mx.val) < cap {
				cap = int(mx.val)
			}
			return I64(int64(m.ex.Concretize(args[0].(*Term), cap, m.posStr(pos))))
		},
		// vLoopBound(n): from here on, a loop header executed more than n times within one call is reported as an
		// unwinding failure (possible non-termination on inputs of this size) - a violation, not an inconclusive
		"vLoopBound": func(m *Machine, caller *frame, fn *ssa.Function, args []Value, pos token.Pos) Value {
			m.loopBound = int(args[0].(*Term).val)
			return nil
		},
		"vCut": func(m *Machine, caller *frame, fn *ssa.Function, args []Value, pos token.Pos) Value {
			panic(&CutPath{m.goString(args[0].(Str))})
		},
		// vBytesEq(a,b): one Boolean term for byte-wise equality (no per-byte forks)
		"vBytesEq": func(m *Machine, caller *frame, fn *ssa.Function, args []Value, pos token.Pos) Value {
			return m.strEq(toStr(args[0]), toStr(args[1]))
		},
		"vStrEq": func(m *Machine, caller *frame, fn *ssa.Function, args []Value, pos token.Pos) Value {
			return m.strEq(toStr(args[0]), toStr(args[1]))
		},
		// vIte(c,a,b) on uint64 without forking
		"vIte": func(m *Machine, caller *frame, fn *ssa.Function, args []Value, pos token.Pos) Value {
			return Ite(args[0].(*Term), args[1].(*Term), args[2].(*Term))
		},
		"vAnd": func(m *Machine, caller *frame, fn *ssa.Function, args []Value, pos token.Pos) Value {
			return And(args[0].(*Term), args[1].(*Term))
		},
		"vOr": func(m *Machine, caller *frame, fn *ssa.Function, args []Value, pos token.Pos) Value {
			return Or(args[0].(*Term), args[1].(*Term))
		},
		"vImplies": func(m *Machine, caller *frame, fn *ssa.Function, args []Value, pos token.Pos) Value {
			return Or(Not(args[0].(*Term)), args[1].(*Term))
		},
		// vIsErr(err): concrete nil test
		"vEngine": func(m *Machine, caller *frame, fn *ssa.Function, args []Value, pos token.Pos) Value {
			return Bool(true)
		},
	}
}

func toStr(v Value) Str {
	switch x := v.(type) {
	case Str:
		return x
	case BSlice:
		if x.obj == nil {
			return Str{ArrConst(0), i64_0, i64_0}
		}
		return Str{x.obj.arr, x.off, x.n}
	}
	panic(&Inconclusive{fmt.Sprintf("toStr on %T", v)})
}

func errorfStub(m *Machine, caller *frame, fn *ssa.Function, args []Value, pos token.Pos) Value {
	var wraps []Value
	for _, a := range args[1].(VSlice).data {
		if iv, ok := a.(Iface); ok && iv.t != nil {
			if iv.t == errType || types.Implements(iv.t, errType.Underlying().(*types.Interface)) {
				wraps = append(wraps, iv)
			}
		}
	}
	return newErr("errorf:"+m.goString(args[0].(Str)), wraps...)
}

// countByteStub: bytealg.Count/CountString(b, c) as the obvious loop, forking on comparisons with symbolic bytes.
func countByteStub(m *Machine, caller *frame, fn *ssa.Function, args []Value, pos token.Pos) Value {
	var arr, off, nT *Term
	switch b := args[0].(type) {
	case BSlice:
		if b.obj == nil {
			return I64(0)
		}
		arr, off, nT = b.obj.arr, b.off, b.n
	case Str:
		arr, off, nT = b.arr, b.off, b.n
	}
	n := m.ex.Concretize(nT, 1<<16, "Count len")
	c := args[1].(*Term)
	cnt := 0
	for k := 0; k < n; k++ {
		if m.ex.Branch(Eq(Select(arr, Bin("bvadd", off, I64(int64(k)))), c), "Count") {
			cnt++
		}
	}
	return I64(int64(cnt))
}

func indexByteStub(m *Machine, caller *frame, fn *ssa.Function, args []Value, pos token.Pos) Value {
	var arr, off, nT *Term
	switch b := args[0].(type) {
	case BSlice:
		if b.obj == nil {
			return I64(-1)
		}
		arr, off, nT = b.obj.arr, b.off, b.n
	case Str:
		arr, off, nT = b.arr, b.off, b.n
	}
	n := m.ex.Concretize(nT, 1<<16, "IndexByte len")
	c := args[1].(*Term)
	for k := 0; k < n; k++ {
		if m.ex.Branch(Eq(Select(arr, Bin("bvadd", off, I64(int64(k)))), c), "IndexByte") {
			return I64(int64(k))
		}
	}
	return I64(-1)
}

func sortStub(m *Machine, caller *frame, fn *ssa.Function, args []Value, pos token.Pos) Value {
	d := args[0].(Iface).v.(VSlice).data
	less := args[1].(*Closure)
	// stable insertion sort driven by the caller's less closure
	for a := 1; a < len(d); a++ {
		for b := a; b > 0; b-- {
			r := m.callClosure(caller, less, []Value{I64(int64(b)), I64(int64(b - 1))}, pos).(*Term)
			if m.ex.Branch(r, "sort less") {
				d[b], d[b-1] = d[b-1], d[b]
			} else {
				break
			}
		}
	}
	return nil
}

func exitStub(msg string) intrFn {
	return func(m *Machine, caller *frame, fn *ssa.Function, args []Value, pos token.Pos) Value {
		panic(&ExitEvent{msg: msg, pos: pos, fn: m.topFn()})
	}
}

func nop(m *Machine, caller *frame, fn *ssa.Function, args []Value, pos token.Pos) Value { return nil }

var stdIntrinsics map[string]intrFn

func init() {
	stdIntrinsics = map[string]intrFn{
		"fmt.Errorf":                       errorfStub,
		"internal/bytealg.IndexByte":       indexByteStub,
		"internal/bytealg.IndexByteString": indexByteStub,
		"(*strings.Builder).copyCheck":     nop,
		"internal/bytealg.MakeNoZero": func(m *Machine, caller *frame, fn *ssa.Function, args []Value, pos token.Pos) Value {
			n := args[0].(*Term)
			m.noteAlloc(n, pos)
			m.objCount++
			return BSlice{&ByteObj{arr: ArrConst(0), size: n, id: m.objCount}, i64_0, n, n}
		},
		"internal/bytealg.Count":           countByteStub,
		"internal/bytealg.CountString":     countByteStub,
		// regexp with a constant pattern: compiled natively; matching is native too and therefore needs a concrete
		// subject string (a symbolic subject is inconclusive, never guessed)
		"regexp.MustCompile": func(m *Machine, caller *frame, fn *ssa.Function, args []Value, pos token.Pos) Value {
			pat, ok := m.concreteString(args[0].(Str))
			if !ok {
				return (*Value)(nil)
			}
			re, err := regexp.Compile(pat)
			if err != nil {
				return (*Value)(nil)
			}
			return &NativeRegexp{re}
		},
		"(*regexp.Regexp).FindStringSubmatch": func(m *Machine, caller *frame, fn *ssa.Function, args []Value, pos token.Pos) Value {
			nr, ok := args[0].(*NativeRegexp)
			if !ok {
				panic(&Inconclusive{"regexp object not available"})
			}
			subj, ok := m.concreteString(args[1].(Str))
			if !ok {
				panic(&Inconclusive{"regexp match on a symbolic string"})
			}
			res := nr.re.FindStringSubmatch(subj)
			if res == nil {
				return VSlice{null: true}
			}
			out := VSlice{}
			for _, r := range res {
				out.data = append(out.data, m.strConst(r))
			}
			return out
		},
		"fmt.Sprintf": func(m *Machine, caller *frame, fn *ssa.Function, args []Value, pos token.Pos) Value {
			f := m.goString(args[0].(Str))
			if f == "%s/%s" {
				a := args[1].(VSlice).data
				s0, ok0 := a[0].(Iface).v.(Str)
				s1, ok1 := a[1].(Iface).v.(Str)
				if ok0 && ok1 {
					return m.strConcat(m.strConcat(s0, m.strConst("/")), s1)
				}
			}
			return m.strConst("<sprintf>")
		},
		"fmt.Sprint":   func(m *Machine, caller *frame, fn *ssa.Function, args []Value, pos token.Pos) Value { return m.strConst("<sprint>") },
		"fmt.Sprintln": func(m *Machine, caller *frame, fn *ssa.Function, args []Value, pos token.Pos) Value { return m.strConst("<sprint>") },
		"fmt.Println":  func(m *Machine, caller *frame, fn *ssa.Function, args []Value, pos token.Pos) Value { return Tuple{i64_0, Iface{}} },
		"fmt.Printf":   func(m *Machine, caller *frame, fn *ssa.Function, args []Value, pos token.Pos) Value { return Tuple{i64_0, Iface{}} },
		"errors.New": func(m *Machine, caller *frame, fn *ssa.Function, args []Value, pos token.Pos) Value {
			return newErr(m.goString(args[0].(Str)))
		},
		"errors.Is": func(m *Machine, caller *frame, fn *ssa.Function, args []Value, pos token.Pos) Value {
			return Bool(m.errorsIs(caller, args[0].(Iface), args[1].(Iface), pos))
		},
		"errors.As": func(m *Machine, caller *frame, fn *ssa.Function, args []Value, pos token.Pos) Value {
			return Bool(m.errorsAs(caller, args[0].(Iface), args[1].(Iface), pos))
		},
		"errors.Unwrap": func(m *Machine, caller *frame, fn *ssa.Function, args []Value, pos token.Pos) Value {
			err := args[0].(Iface)
			if err.t == nil {
				return Iface{}
			}
			if oe, ok := err.v.(*OpaqueErr); ok {
				if len(oe.wraps) == 1 {
					return oe.wraps[0]
				}
				return Iface{}
			}
			if f := m.lookupMethodSafe(err.t, "Unwrap"); f != nil {
				return m.callClosure(caller, &Closure{fn: f}, []Value{err.v}, pos)
			}
			return Iface{}
		},
		"hash/crc32.ChecksumIEEE": func(m *Machine, caller *frame, fn *ssa.Function, args []Value, pos token.Pos) Value {
			return crcFinal(crcUpdate(BV(32, 0), args[0].(BSlice)))
		},
		// crc32.Update(crc, table, p): continues the fold from the state behind crc (crc = crc_fin(st), or 0 = nothing fed yet)
		"hash/crc32.Update": func(m *Machine, caller *frame, fn *ssa.Function, args []Value, pos token.Pos) Value {
			c := args[0].(*Term)
			var st *Term
			switch {
			case c.IsConst() && c.val == 0:
				st = BV(32, 0)
			case c.op == "uf:crc_fin":
				st = c.args[0]
			default:
				st = UF("crc_unfin", 32, c)
			}
			return crcFinal(crcUpdate(st, args[2].(BSlice)))
		},
		"hash/crc32.NewIEEE": func(m *Machine, caller *frame, fn *ssa.Function, args []Value, pos token.Pos) Value {
			return Iface{t: errType, v: &CRCState{st: BV(32, 0)}}
		},
		"sort.Slice":       sortStub,
		"sort.SliceStable": sortStub,
		"sort.Strings": func(m *Machine, caller *frame, fn *ssa.Function, args []Value, pos token.Pos) Value {
			d := args[0].(VSlice).data
			for a := 1; a < len(d); a++ {
				for b := a; b > 0; b-- {
					if m.ex.Branch(m.strLess(d[b].(Str), d[b-1].(Str)), "sort.Strings less") {
						d[b], d[b-1] = d[b-1], d[b]
					} else {
						break
					}
				}
			}
			return nil
		},
		"(*sync.Pool).Get": func(m *Machine, caller *frame, fn *ssa.Function, args []Value, pos token.Pos) Value {
			p := args[0].(*Value)
			newf := (*p).(Struct)[len((*p).(Struct))-1]
			if c, ok := newf.(*Closure); ok && c != nil {
				return m.callClosure(caller, c, nil, pos)
			}
			return Iface{}
		},
		"(*sync.Pool).Put":     nop,
		"(*sync.Mutex).Lock":   nop,
		"(*sync.Mutex).Unlock": nop,
		"(*sync.Once).Do": func(m *Machine, caller *frame, fn *ssa.Function, args []Value, pos token.Pos) Value {
			p := args[0].(*Value)
			if m.onceDone[p] {
				return nil
			}
			m.onceDone[p] = true
			return m.callClosure(caller, args[1].(*Closure), nil, pos)
		},
		"sync/atomic.LoadUint32": func(m *Machine, caller *frame, fn *ssa.Function, args []Value, pos token.Pos) Value { return m.load(args[0], pos) },
		"sync/atomic.LoadInt32":  func(m *Machine, caller *frame, fn *ssa.Function, args []Value, pos token.Pos) Value { return m.load(args[0], pos) },
		"sync/atomic.LoadUint64": func(m *Machine, caller *frame, fn *ssa.Function, args []Value, pos token.Pos) Value { return m.load(args[0], pos) },
		"sync/atomic.LoadInt64":  func(m *Machine, caller *frame, fn *ssa.Function, args []Value, pos token.Pos) Value { return m.load(args[0], pos) },
		"os.Exit":                exitStub("os.Exit"),
		"log.Fatal":              exitStub("log.Fatal"),
		"log.Fatalf":             exitStub("log.Fatalf"),
		"log.Fatalln":            exitStub("log.Fatalln"),
		"log.Printf":             nop,
		"log.Println":            nop,
		"log.Print":              nop,
		"(*log.Logger).Fatal":    exitStub("log.Fatal"),
		"(*log.Logger).Fatalf":   exitStub("log.Fatalf"),
		"math/bits.Add64": func(m *Machine, caller *frame, fn *ssa.Function, args []Value, pos token.Pos) Value {
			x, y, c := args[0].(*Term), args[1].(*Term), args[2].(*Term)
			sum := Bin("bvadd", Bin("bvadd", x, y), c)
			// carry = ((x & y) | ((x | y) &^ sum)) >> 63
			t := Bin("bvor", Bin("bvand", x, y), Bin("bvand", Bin("bvor", x, y), Bin("bvxor", sum, BV(64, mask(64)))))
			return Tuple{sum, Bin("bvlshr", t, BV(64, 63))}
		},
	}
}


// lookupMethodSafe returns the (exported) method name of t, or nil when t has none.
func (m *Machine) lookupMethodSafe(t types.Type, name string) *ssa.Function {
	sel := m.prog.MethodSets.MethodSet(t).Lookup(nil, name)
	if sel == nil {
		return nil
	}
	return m.prog.MethodValue(sel)
}

func (m *Machine) errorsIs(fr *frame, err, target Iface, pos token.Pos) bool {
	for depth := 0; depth < 16; depth++ {
		if err.t == nil {
			return false
		}
		if m.identEq(err, target) {
			return true
		}
		if oe, ok := err.v.(*OpaqueErr); ok {
			if len(oe.wraps) == 0 {
				return false
			}
			if len(oe.wraps) > 1 {
				for _, w := range oe.wraps {
					if m.errorsIs(fr, w.(Iface), target, pos) {
						return true
					}
				}
				return false
			}
			err = oe.wraps[0].(Iface)
			continue
		}
		if f := m.lookupMethodSafe(err.t, "Is"); f != nil {
			if r := m.callClosure(fr, &Closure{fn: f}, []Value{err.v, target}, pos).(*Term); r.IsTrue() {
				return true
			}
		}
		if f := m.lookupMethodSafe(err.t, "Unwrap"); f != nil {
			r := m.callClosure(fr, &Closure{fn: f}, []Value{err.v}, pos)
			if ri, ok := r.(Iface); ok {
				err = ri
				continue
			}
		}
		return false
	}
	return false
}

func (m *Machine) errorsAs(fr *frame, err, target Iface, pos token.Pos) bool {
	pt := target.t.(*types.Pointer).Elem()
	for depth := 0; depth < 16; depth++ {
		if err.t == nil {
			return false
		}
		if _, ok := err.v.(*OpaqueErr); !ok && types.AssignableTo(err.t, pt) {
			if _, isI := pt.Underlying().(*types.Interface); isI {
				m.store(target.v, err, pos)
			} else {
				m.store(target.v, err.v, pos)
			}
			return true
		}
		if oe, ok := err.v.(*OpaqueErr); ok {
			if len(oe.wraps) == 0 {
				return false
			}
			if len(oe.wraps) > 1 {
				for _, w := range oe.wraps {
					if m.errorsAs(fr, w.(Iface), target, pos) {
						return true
					}
				}
				return false
			}
			err = oe.wraps[0].(Iface)
			continue
		}
		if f := m.lookupMethodSafe(err.t, "Unwrap"); f != nil {
			r := m.callClosure(fr, &Closure{fn: f}, []Value{err.v}, pos)
			if ri, ok := r.(Iface); ok {
				err = ri
				continue
			}
		}
		return false
	}
	return false
}

func (m *Machine) strLess(x, y Str) *Term {
	nx := m.ex.Concretize(x.n, 1<<16, "strLess len")
	ny := m.ex.Concretize(y.n, 1<<16, "strLess len")
	n := nx
	if ny < n {
		n = ny
	}
	res := Bool(nx < ny)
	for i := n - 1; i >= 0; i-- {
		a := Select(x.arr, Bin("bvadd", x.off, I64(int64(i))))
		b := Select(y.arr, Bin("bvadd", y.off, I64(int64(i))))
		res = Ite(Eq(a, b), res, Cmp("bvult", a, b))
	}
	return res
}
