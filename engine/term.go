package main

import (
	"fmt"
	"math/bits"
	"strconv"
	"strings"
)

// Term is a hash-consed SMT term. Sorts: Bool (w==0), BitVec w (1..64), Array BV64->BV8 (w==-1).
type Term struct {
	op   string
	w    int
	args []*Term
	val  uint64 // const value (BV) or 0/1 (bool)
	name string // var name
	hi   int    // extract hi / ext amount
	lo   int
	id   int
	def  bool // defined in solver
	konst bool // op is const/true/false
	// store chains with constant indices: cdepth = number of consecutive const-index stores ending here;
	// skips[k] jumps over the last 16^(k+1) of them when the wanted index is outside their index range
	cdepth int
	skips  []skipInfo
}

type skipInfo struct {
	to     *Term
	lo, hi uint64
}

type tkey struct {
	op         string
	name       string
	w, hi, lo  int
	val        uint64
	n          int
	a0, a1, a2 int
	rest       string
}

var termTab = map[tkey]*Term{}
var termList []*Term
var selMemo = map[[2]int]*Term{}

func mk(op string, w int, val uint64, name string, hi, lo int, args ...*Term) *Term {
	k := tkey{op: op, name: name, w: w, hi: hi, lo: lo, val: val, n: len(args), a0: -1, a1: -1, a2: -1}
	switch len(args) {
	case 0:
	case 1:
		k.a0 = args[0].id
	case 2:
		k.a0, k.a1 = args[0].id, args[1].id
	case 3:
		k.a0, k.a1, k.a2 = args[0].id, args[1].id, args[2].id
	default:
		var sb strings.Builder
		for _, a := range args {
			sb.WriteString(strconv.Itoa(a.id))
			sb.WriteByte(',')
		}
		k.rest = sb.String()
	}
	if t, ok := termTab[k]; ok {
		return t
	}
	t := &Term{op: op, w: w, args: args, val: val, name: name, hi: hi, lo: lo, id: len(termList)}
	t.konst = op == "const" || op == "true" || op == "false"
	termTab[k] = t
	termList = append(termList, t)
	return t
}

func mask(w int) uint64 {
	if w >= 64 {
		return ^uint64(0)
	}
	return (uint64(1) << uint(w)) - 1
}

func BV(w int, v uint64) *Term { return mk("const", w, v&mask(w), "", 0, 0) }
func Bool(b bool) *Term {
	if b {
		return mk("true", 0, 1, "", 0, 0)
	}
	return mk("false", 0, 0, "", 0, 0)
}
func Var(name string, w int) *Term { return mk("var", w, 0, name, 0, 0) }
func ArrVar(name string) *Term      { return mk("avar", -1, 0, name, 0, 0) }
func ArrConst(v uint64) *Term       { return mk("aconst", -1, v, "", 0, 0) }

func (t *Term) IsConst() bool { return t.konst }
func (t *Term) IsTrue() bool  { return t.op == "true" }
func (t *Term) IsFalse() bool { return t.op == "false" }

func sext(v uint64, w int) int64 {
	if w >= 64 {
		return int64(v)
	}
	if v&(1<<uint(w-1)) != 0 {
		return int64(v | ^mask(w))
	}
	return int64(v)
}

// Bin builds a binary BV op with folding.
func Bin(op string, a, b *Term) *Term {
	if a.w != b.w {
		panic(fmt.Sprintf("width mismatch %s %d %d", op, a.w, b.w))
	}
	w := a.w
	if a.IsConst() && b.IsConst() {
		x, y := a.val, b.val
		switch op {
		case "bvadd":
			return BV(w, x+y)
		case "bvsub":
			return BV(w, x-y)
		case "bvmul":
			return BV(w, x*y)
		case "bvand":
			return BV(w, x&y)
		case "bvor":
			return BV(w, x|y)
		case "bvxor":
			return BV(w, x^y)
		case "bvshl":
			if y >= uint64(w) {
				return BV(w, 0)
			}
			return BV(w, x<<y)
		case "bvlshr":
			if y >= uint64(w) {
				return BV(w, 0)
			}
			return BV(w, x>>y)
		case "bvashr":
			s := sext(x, w)
			if y >= uint64(w) {
				y = uint64(w - 1)
			}
			return BV(w, uint64(s>>y))
		case "bvudiv":
			if y != 0 {
				return BV(w, x/y)
			}
		case "bvurem":
			if y != 0 {
				return BV(w, x%y)
			}
		case "bvsdiv":
			if y != 0 {
				return BV(w, uint64(sext(x, w)/sext(y, w)))
			}
		case "bvsrem":
			if y != 0 {
				return BV(w, uint64(sext(x, w)%sext(y, w)))
			}
		}
	}
	switch op {
	case "bvadd", "bvor", "bvxor":
		if a.IsConst() && a.val == 0 {
			return b
		}
		if b.IsConst() && b.val == 0 {
			return a
		}
	case "bvsub", "bvshl", "bvlshr", "bvashr":
		if b.IsConst() && b.val == 0 {
			return a
		}
	case "bvand":
		if (a.IsConst() && a.val == 0) || (b.IsConst() && b.val == 0) {
			return BV(w, 0)
		}
		if a.IsConst() && a.val == mask(w) {
			return b
		}
		if b.IsConst() && b.val == mask(w) {
			return a
		}
	case "bvmul":
		if a.IsConst() && a.val == 1 {
			return b
		}
		if b.IsConst() && b.val == 1 {
			return a
		}
	}
	if op == "bvor" {
		if la, ok := lanes(a); ok {
			if lb, ok := lanes(b); ok {
				if r := mergeLanes(w, la, lb); r != nil {
					return r
				}
			}
		}
	}
	if (op == "bvadd" || op == "bvsub") && (a.op == "bvadd" || a.op == "bvsub" || b.op == "bvadd" || b.op == "bvsub") {
		if r := linNorm(op, w, a, b); r != nil {
			return r
		}
	}
	return mk(op, w, 0, "", 0, 0, a, b)
}

// Cmp builds a comparison (result Bool).
func Cmp(op string, a, b *Term) *Term {
	if a.w != b.w {
		panic(fmt.Sprintf("width mismatch %s %d %d", op, a.w, b.w))
	}
	if a.IsConst() && b.IsConst() {
		x, y := a.val, b.val
		sx, sy := sext(x, a.w), sext(y, a.w)
		switch op {
		case "=":
			return Bool(x == y)
		case "bvult":
			return Bool(x < y)
		case "bvule":
			return Bool(x <= y)
		case "bvslt":
			return Bool(sx < sy)
		case "bvsle":
			return Bool(sx <= sy)
		}
	}
	if a == b {
		switch op {
		case "=", "bvule", "bvsle":
			return Bool(true)
		default:
			return Bool(false)
		}
	}
	return mk(op, 0, 0, "", 0, 0, a, b)
}

func Not(a *Term) *Term {
	if a.IsTrue() {
		return Bool(false)
	}
	if a.IsFalse() {
		return Bool(true)
	}
	if a.op == "not" {
		return a.args[0]
	}
	return mk("not", 0, 0, "", 0, 0, a)
}
func And(a, b *Term) *Term {
	if a.IsFalse() || b.IsFalse() {
		return Bool(false)
	}
	if a.IsTrue() {
		return b
	}
	if b.IsTrue() {
		return a
	}
	return mk("and", 0, 0, "", 0, 0, a, b)
}
func Or(a, b *Term) *Term { return Not(And(Not(a), Not(b))) }
func Ite(c, a, b *Term) *Term {
	if c.IsTrue() {
		return a
	}
	if c.IsFalse() {
		return b
	}
	if a == b {
		return a
	}
	if a.w == 0 {
		return Or(And(c, a), And(Not(c), b))
	}
	return mk("ite", a.w, 0, "", 0, 0, c, a, b)
}
func Eq(a, b *Term) *Term { return Cmp("=", a, b) }

func Extract(hi, lo int, a *Term) *Term {
	if lo == 0 && hi == a.w-1 {
		return a
	}
	if a.IsConst() {
		return BV(hi-lo+1, a.val>>uint(lo))
	}
	if a.op == "extract" {
		return Extract(hi+a.lo, lo+a.lo, a.args[0])
	}
	if a.op == "zext" && hi < a.args[0].w {
		return Extract(hi, lo, a.args[0])
	}
	if a.op == "zext" && lo >= a.args[0].w {
		return BV(hi-lo+1, 0)
	}
	if a.op == "bvlshr" && a.args[1].IsConst() && uint64(hi)+a.args[1].val < uint64(a.w) {
		k := int(a.args[1].val)
		return Extract(hi+k, lo+k, a.args[0])
	}
	if a.op == "concat" {
		lw := a.args[1].w
		if hi < lw {
			return Extract(hi, lo, a.args[1])
		}
		if lo >= lw {
			return Extract(hi-lw, lo-lw, a.args[0])
		}
	}
	return mk("extract", hi-lo+1, 0, "", hi, lo, a)
}
func ZExt(w int, a *Term) *Term {
	if a.w == w {
		return a
	}
	if a.w > w {
		return Extract(w-1, 0, a)
	}
	if a.IsConst() {
		return BV(w, a.val)
	}
	return mk("zext", w, 0, "", w-a.w, 0, a)
}
func SExt(w int, a *Term) *Term {
	if a.w == w {
		return a
	}
	if a.w > w {
		return Extract(w-1, 0, a)
	}
	if a.IsConst() {
		return BV(w, uint64(sext(a.val, a.w)))
	}
	return mk("sext", w, 0, "", w-a.w, 0, a)
}
func Concat(a, b *Term) *Term {
	if a.IsConst() && b.IsConst() && a.w+b.w <= 64 {
		return BV(a.w+b.w, a.val<<uint(b.w)|b.val)
	}
	if a.op == "extract" && b.op == "extract" && a.args[0] == b.args[0] && a.lo == b.hi+1 {
		return Extract(a.hi, b.lo, a.args[0])
	}
	return mk("concat", a.w+b.w, 0, "", 0, 0, a, b)
}

// Select with read-over-write simplification.
func Select(arr, idx *Term) *Term {
	mkey := [2]int{arr.id, idx.id}
	if r, ok := selMemo[mkey]; ok {
		return r
	}
	r := select1(arr, idx)
	selMemo[mkey] = r
	return r
}

func select1(arr, idx *Term) *Term {
	for {
		switch arr.op {
		case "store":
			si := arr.args[1]
			if si == idx {
				return arr.args[2]
			}
			if si.konst && idx.konst {
				jumped := false
				for k := len(arr.skips) - 1; k >= 0; k-- {
					if sk := &arr.skips[k]; idx.val < sk.lo || idx.val > sk.hi {
						arr, jumped = sk.to, true
						break
					}
				}
				if !jumped {
					arr = arr.args[0]
				}
				continue
			}
			// try offset-difference: (base + c1) vs (base + c2)
			if b1, c1 := splitAdd(si); true {
				if b2, c2 := splitAdd(idx); b1 == b2 && c1 != c2 {
					arr = arr.args[0]
					continue
				}
			}
			// symbolic-index store read at a constant index: lift to ite (avoids array theory)
			if !si.IsConst() && idx.IsConst() {
				return Ite(Eq(si, idx), arr.args[2], Select(arr.args[0], idx))
			}
		case "aconst":
			return BV(8, arr.val)
		}
		break
	}
	return mk("select", 8, 0, "", 0, 0, arr, idx)
}
func splitAdd(t *Term) (*Term, uint64) {
	if t.op == "bvadd" && t.args[1].IsConst() {
		return t.args[0], t.args[1].val
	}
	if t.IsConst() {
		return nil, t.val
	}
	return t, 0
}
func Store(arr, idx, v *Term) *Term {
	if arr.op == "store" && arr.args[1] == idx {
		arr = arr.args[0]
	}
	t := mk("store", -1, 0, "", 0, 0, arr, idx, v)
	if t.cdepth == 0 && idx.konst {
		pd := 0
		if arr.op == "store" && arr.args[1].konst {
			pd = arr.cdepth
		}
		t.cdepth = pd + 1
		// level k block size 16^(k+1); built bottom-up from the level below
		if t.cdepth%16 == 0 {
			lo, hi := idx.val, idx.val
			cur := t
			for i := 0; i < 16; i++ {
				v := cur.args[1].val
				if v < lo {
					lo = v
				}
				if v > hi {
					hi = v
				}
				cur = cur.args[0]
			}
			t.skips = append(t.skips, skipInfo{cur, lo, hi})
			size := 16
			for lvl := 1; lvl < 4; lvl++ {
				size *= 16
				if t.cdepth%size != 0 {
					break
				}
				lo, hi := t.skips[lvl-1].lo, t.skips[lvl-1].hi
				cur := t
				ok := true
				for i := 0; i < 16; i++ {
					if len(cur.skips) < lvl {
						ok = false
						break
					}
					sk := cur.skips[lvl-1]
					if sk.lo < lo {
						lo = sk.lo
					}
					if sk.hi > hi {
						hi = sk.hi
					}
					cur = sk.to
				}
				if !ok {
					break
				}
				t.skips = append(t.skips, skipInfo{cur, lo, hi})
			}
		}
	}
	return t
}

// UF application (for CRC abstraction etc.)
func UF(name string, w int, args ...*Term) *Term { return mk("uf:"+name, w, 0, "", 0, 0, args...) }

func sortStr(t *Term) string {
	switch {
	case t.w == 0:
		return "Bool"
	case t.w == -1:
		return "(Array (_ BitVec 64) (_ BitVec 8))"
	default:
		return fmt.Sprintf("(_ BitVec %d)", t.w)
	}
}

func (t *Term) ref() string {
	switch t.op {
	case "const":
		return fmt.Sprintf("(_ bv%d %d)", t.val, t.w)
	case "true":
		return "true"
	case "false":
		return "false"
	case "var", "avar":
		return t.name
	}
	return fmt.Sprintf("t%d", t.id)
}

func (t *Term) body() string {
	a := func(i int) string { return t.args[i].ref() }
	switch t.op {
	case "extract":
		return fmt.Sprintf("((_ extract %d %d) %s)", t.hi, t.lo, a(0))
	case "zext":
		return fmt.Sprintf("((_ zero_extend %d) %s)", t.hi, a(0))
	case "sext":
		return fmt.Sprintf("((_ sign_extend %d) %s)", t.hi, a(0))
	case "aconst":
		return fmt.Sprintf("((as const (Array (_ BitVec 64) (_ BitVec 8))) (_ bv%d 8))", t.val)
	}
	op := t.op
	if strings.HasPrefix(op, "uf:") {
		op = op[3:]
	}
	var sb strings.Builder
	sb.WriteString("(" + op)
	for i := range t.args {
		sb.WriteString(" " + a(i))
	}
	sb.WriteString(")")
	return sb.String()
}

var _ = bits.Len

type lane struct {
	lo int
	t  *Term
}

// lanes decomposes t into disjoint positioned sub-terms (zero elsewhere).
func lanes(t *Term) ([]lane, bool) {
	switch t.op {
	case "const":
		if t.val == 0 {
			return nil, true
		}
		return nil, false
	case "zext":
		return []lane{{0, t.args[0]}}, true
	case "bvshl":
		if !t.args[1].IsConst() {
			return nil, false
		}
		k := int(t.args[1].val)
		ls, ok := lanes(t.args[0])
		if !ok {
			return nil, false
		}
		var out []lane
		for _, l := range ls {
			if l.lo+k+l.t.w > t.w {
				return nil, false
			}
			out = append(out, lane{l.lo + k, l.t})
		}
		return out, true
	case "concat":
		lo, ok1 := lanes(t.args[1])
		hi, ok2 := lanes(t.args[0])
		if ok1 && ok2 {
			out := append([]lane{}, lo...)
			for _, l := range hi {
				out = append(out, lane{l.lo + t.args[1].w, l.t})
			}
			return out, true
		}
		return []lane{{0, t}}, true
	case "extract", "select", "var":
		return []lane{{0, t}}, true
	case "lanes":
		var out []lane
		pos := 0
		for i := len(t.args) - 1; i >= 0; i-- {
			a := t.args[i]
			if !(a.IsConst() && a.val == 0) {
				out = append(out, lane{pos, a})
			}
			pos += a.w
		}
		return out, true
	}
	return nil, false
}

func mergeLanes(w int, a, b []lane) *Term {
	all := append(append([]lane{}, a...), b...)
	// sort by lo descending
	for i := 1; i < len(all); i++ {
		for j := i; j > 0 && all[j].lo > all[j-1].lo; j-- {
			all[j], all[j-1] = all[j-1], all[j]
		}
	}
	var acc *Term
	pos := w
	for _, l := range all {
		top := l.lo + l.t.w
		if top > pos {
			return nil // overlap
		}
		if top < pos {
			z := BV(pos-top, 0)
			if acc == nil {
				acc = z
			} else {
				acc = Concat(acc, z)
			}
		}
		if acc == nil {
			acc = l.t
		} else {
			acc = Concat(acc, l.t)
		}
		pos = l.lo
	}
	if pos > 0 {
		z := BV(pos, 0)
		if acc == nil {
			acc = z
		} else {
			acc = Concat(acc, z)
		}
	}
	if acc == nil || acc.w != w {
		return nil
	}
	return acc
}

// linNorm flattens nested bvadd/bvsub into const + sum(coeff*atom) and rebuilds canonically
// (atoms ordered by id; constant last), cancelling +x/-x pairs.
func linNorm(op string, w int, a, b *Term) *Term {
	coeff := map[*Term]int64{}
	var order []*Term
	var c uint64
	var walk func(t *Term, sign int64)
	walk = func(t *Term, sign int64) {
		switch {
		case t.IsConst():
			if sign > 0 {
				c += t.val
			} else {
				c -= t.val
			}
		case t.op == "bvadd":
			walk(t.args[0], sign)
			walk(t.args[1], sign)
		case t.op == "bvsub":
			walk(t.args[0], sign)
			walk(t.args[1], -sign)
		default:
			if _, ok := coeff[t]; !ok {
				order = append(order, t)
			}
			coeff[t] += sign
		}
	}
	walk(a, 1)
	if op == "bvadd" {
		walk(b, 1)
	} else {
		walk(b, -1)
	}
	// sort atoms by id for canonical form
	for i := 1; i < len(order); i++ {
		for j := i; j > 0 && order[j].id < order[j-1].id; j-- {
			order[j], order[j-1] = order[j-1], order[j]
		}
	}
	var acc *Term
	for _, at := range order {
		k := coeff[at]
		if k == 0 {
			continue
		}
		neg := k < 0
		if neg {
			k = -k
		}
		term := at
		if k != 1 {
			term = mk("bvmul", w, 0, "", 0, 0, at, BV(w, uint64(k)))
		}
		switch {
		case acc == nil && !neg:
			acc = term
		case acc == nil && neg:
			acc = mk("bvsub", w, 0, "", 0, 0, BV(w, 0), term)
		case neg:
			acc = mk("bvsub", w, 0, "", 0, 0, acc, term)
		default:
			acc = mk("bvadd", w, 0, "", 0, 0, acc, term)
		}
	}
	cc := BV(w, c)
	if acc == nil {
		return cc
	}
	if cc.val == 0 {
		return acc
	}
	return mk("bvadd", w, 0, "", 0, 0, acc, cc)
}

// Dump renders t as a nested expression down to the given depth (debugging aid).
func (t *Term) Dump(depth int) string {
	switch t.op {
	case "const", "true", "false", "var", "avar":
		return t.ref()
	}
	if depth <= 0 {
		return t.ref()
	}
	var sb strings.Builder
	op := t.op
	if t.op == "extract" {
		op = fmt.Sprintf("extract[%d:%d]", t.hi, t.lo)
	}
	sb.WriteString("(" + op)
	for _, a := range t.args {
		sb.WriteString(" " + a.Dump(depth-1))
	}
	sb.WriteString(")")
	return sb.String()
}
