#!/usr/bin/env python3
"""Run the repository's pinned baseline (guard off) and compare with /root/.vp/BASELINE.json stable_pass."""
import json, subprocess, sys, os
base = json.load(open('/root/.vp/BASELINE.json'))
want = set(base['stable_pass'])
mods = open('/w/out/gomods.txt').read().split()
env = dict(os.environ, GOPROXY='off', GOSUMDB='off', GOTOOLCHAIN='local')
env.pop('GOFLAGS', None)
passed = set(); failed = set()
for m in mods:
    p = subprocess.run(['go', 'test', '-json', '-vet=off', '-count=1', '-timeout', '25m', './...'], cwd=os.environ.get('REPO_ROOT','/repo') + '/' + m, env=env, capture_output=True, text=True)
    for l in p.stdout.splitlines():
        try: e = json.loads(l)
        except Exception: continue
        if 'Test' in e and e.get('Action') in ('pass', 'fail'):
            k = e['Package'] + '::' + e['Test']
            (passed if e['Action'] == 'pass' else failed).add(k)
missing = sorted(want - passed)
print(f"stable_pass={len(want)} passed_now={len(want & passed)} missing={len(missing)}")
for k in missing[:40]: print("  NOT PASSING:", k)
sys.exit(1 if missing else 0)
