#!/bin/sh
# tools/tryseed.sh <seed-id> <cmd...> : run <cmd> (e.g. ./check C03 --tier quick, or bin/symgo job ...) against a scratch
# worktree of /repo with seeded/<seed-id>/patch.diff applied (VERIF_REPO/VERIF_OUT redirect the machinery); removes it afterwards.
sid=$1; shift
W=/tmp/sv/try-$sid
git -C /repo worktree remove --force $W 2>/dev/null
mkdir -p /tmp/sv && git -C /repo worktree add -q --detach $W HEAD || exit 2
git -C $W apply /verif/seeded/$sid/patch.diff || { git -C /repo worktree remove --force $W; exit 2; }
cd /verif && VERIF_REPO=$W VERIF_OUT=/tmp/sv/out-try-$sid GOPROXY=off GOSUMDB=off GOTOOLCHAIN=local "$@"
rc=$?
git -C /repo worktree remove --force $W; rm -rf /tmp/sv/out-try-$sid
exit $rc
