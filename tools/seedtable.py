#!/usr/bin/env python3
"""Print the markdown table of seeded changes (from /verif/seeded/*/meta.json)."""
import json, glob, os, re
rows = []
for d in sorted(glob.glob('/verif/seeded/*')):
    m = json.load(open(d + '/meta.json'))
    note = m.get('needs_to_manifest', '')
    first = ''
    for l in note.splitlines():
        l = l.strip()
        if l and not l.startswith('#'):
            first = re.sub(r'\*\*', '', l)[:230]
            break
    title = note.splitlines()[0].lstrip('# ').strip()[:120] if note else ''
    res = m.get('check_results', {})
    caught = [p for p, r in res.items() if r.get('caught')]
    missed = [p for p, r in res.items() if not r.get('caught')]
    how = ''
    for p in caught:
        for l in res[p]['lines']:
            if 'detail:' in l:
                mm = re.search(r'harness=(\w+).*?label="([^"]+)"', l)
                if mm:
                    how = f'{mm.group(1)}: {mm.group(2)}'
                break
        if how: break
    rows.append((os.path.basename(d), m['breaks_property'], title, ', '.join(caught) or '-', ', '.join(missed) or '-', how))
print('| seed | property | change (from its note) | caught by | tried, not caught by | first violation reported |')
print('|---|---|---|---|---|---|')
for r in rows:
    print('| ' + ' | '.join(x.replace('|', '/') for x in r) + ' |')
