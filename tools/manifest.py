#!/usr/bin/env python3
"""Generate /verif/MANIFEST.json. Claimed checks are listed in CHECKS; everything else is not_applicable."""
import json, subprocess

TECH = "bounded symbolic execution of the real go/ssa of /repo (symgo) + SMT (z3/cvc5, QF_ABV+UF); counterexamples replayed natively"
NOTES = {
 "C18": " C18 specifically: only the ROS 1 bag half is decided; the ROS 2 db3 half (database/sql, cgo SQLite, file system) cannot be encoded and is not claimed.",
 "C19": " C19 specifically: definition texts are generated from symbolic selectors (solver case split), not arbitrary bytes; the regexp is executed natively on concrete lines.",
 "C13": " C13 specifically: the map-order clause is decided, and isolation between two Writer instances under interleavings at sink-write / API-call granularity; independence from CPU count and from preemptive goroutine schedules (instruction-level races) is outside what this technique can reach and is not claimed.",
}
NOTE = ("trusted: go/packages+go/ssa lowering (x/tools v0.29.0), the symgo interpreter and its stubs (DESIGN.md §2.5: fmt/errors opaque, crc32 uninterpreted fold, "
        "sort as insertion sort over the real less, sync no-ops), z3 4.8.12 and cvc5 1.0 (any unknown/error = inconclusive, reported), go test for native replay. "
        "Bounds (templates, lengths, unwindings) are listed in the evidence file; zstd/lz4 are outside every claim.")

CHECKS = {
 "C01": ("for every value of every field (all string/payload bytes, ids from two id sets, 64-bit times, sequence numbers) of 8 workload templates under the enumerated writer/lexer option sets, the solver shows that the real lexer and the real non-indexed iterator return exactly what the real writer was given, in order, and that earlier results are not altered by later reads", "DESIGN.md §4 C01"),
 "C02": ("for every field value and every combination of the symbolic Skip* writer flags on the enumerated templates, the solver shows that an index-based read returns the scan's sequence, or falls back, or errors - never fewer messages silently - and that every attachment/metadata index entry retrieves identical content", "DESIGN.md §4 C02"),
 "C03": ("for every assignment of 64-bit log times to the messages of multi-chunk files (bounded message/chunk counts) the solver shows sortedness, exactly-once, in-chunk tie order and repeatability of both time-ordered reads of the real indexed iterator", "DESIGN.md §4 C03"),
 "C04": ("for every window [start,end) with start<=end (64-bit symbolic), every log-time assignment, the enumerated topic sets, both iterators, three orders and nine spellings of the window, the solver shows the returned set is exactly the filter of the written messages", "DESIGN.md §4 C04"),
 "C10": ("for every byte string up to the stated lengths (length itself symbolic): each of 16 leaf parsers, one step of the lexer from a state partitioned by the opcode ahead and the option set (incl. caller-configured record/chunk limits, attachments with and without callback, record lengths up to 2^64-1), readRecord, and the whole Reader API on a written file with one hostile length/offset/size field are shown free of panics, process exits, non-terminating loops (per-loop unwinding bound) and allocations above the ceiling in force", "DESIGN.md §4 C10, §9"),
 "C08": ("for every log time (64 bit), every string/payload byte and the symbolic Skip* flags on the enumerated templates and multi-chunk files (incl. chunks that hold no message), the solver shows that Writer.Statistics, the statistics record and Info.Statistics equal the aggregates of what was written, that chunk index time ranges are exact, and that Info lists every channel, schema, chunk, attachment index and metadata index the configuration keeps", "DESIGN.md §4 C08"),
 "C07": ("with every byte of one chunk's stored payload replaced by a fresh symbolic byte at once (any alteration that keeps the length), a validating lexer is shown to return the records before the damaged chunk unchanged and then an error or an invalid-chunk token, never a record of the damaged chunk; with an attachment's CRC-covered bytes replaced likewise, computed and stored attachment CRC are shown to differ. Under the stated ideal-checksum assumption", "DESIGN.md §4 C07"),
 "C09": ("for every cut position (symbolic, the whole file covered by 16-byte cells) and every field value of the enumerated files, the solver shows that the lexer and the non-indexed iterator return a content-equal prefix of the uncut read, end with EOF or an error, never panic, and return every message of every chunk that lies completely before the cut", "DESIGN.md §4 C09"),
 "C13": ("DECIDED PART ONLY (independence from map iteration and insertion order): for every permutation of every range over a map inside the writer and everything it calls, and every value of the symbolic map keys/values, the output bytes equal those of a fixed-order reference run; and two Writer instances interleaved at every sink write (symbolic index) or at every API call each produce the bytes they produce alone. NOT decided: independence from CPU count and preemptive goroutine schedules, race freedom (no scheduler model; see level_note)", "DESIGN.md §4 C13"),
 "C14": ("for every index of the failing destination write (symbolic), every accepted byte count of that write up to the stated bound, sticky or transient, the solver shows that the API call during which the write failed returns a non-nil error, that no call panics and that the accepted bytes are a prefix of the fault-free output; and that an attachment source failing at any position or declaring any wrong size (64-bit symbolic) makes WriteAttachment return an error", "DESIGN.md §4 C14"),
 "C15": ("for one short read at any read call (symbolic index and size), for 1/2/5-byte reads and for data delivered together with EOF, lexer, non-indexed and indexed iterators are shown to return exactly the plain read; for a sticky I/O error at any byte position (symbolic, whole file covered by cells) the records returned are a content-equal prefix and the terminal error is non-nil and not io.EOF", "DESIGN.md §4 C15"),
 "C20": ("for every assignment of 64-bit log times to multi-chunk files (every overlap pattern of the chunk ranges) the solver shows that after every step of an index-based read the number of decompressed chunk buffers held is at most the overlap depth of the ranges (1 in file order); a validating lexer keeps one chunk buffer of at most twice the largest chunk and a non-validating one none; attachments of the enumerated sizes stream through writer and lexer with no single library allocation above 33000 bytes", "DESIGN.md §4 C20"),
 "C05": ("the bytes the real writer delivers are decoded by a strict decoder written from the specification only and executed symbolically: grammar (magic, header, data section, chunk contents, definitions before uses, grouped summary, summary offsets, footer) and exactness of every chunk index, message index entry, attachment/metadata index, summary offset, footer field, chunk uncompressed size and chunk time range are shown for every field value and every combination of the symbolic Skip* flags on the enumerated templates", "DESIGN.md §4 C05"),
 "C06": ("with the CRC as an uninterpreted fold, the stored data-section, summary, chunk and attachment checksums are shown equal to the fold over exactly the byte ranges the specification defines (and zero / still-correct when disabled) for every field value on the enumerated templates; any difference in which bytes are fed is a solver counterexample replayed with the real CRC-32", "DESIGN.md §4 C06"),
 "C11": ("files produced by a specification-only encoder with a record of symbolic unknown opcode (0x10..0xFF) and symbolic body inserted at each of 8 legal position classes, and with symbolic extra bytes appended to every extensible record (offsets recomputed), are shown to be read by the lexer, the non-indexed iterator, Info, index-entry access and Messages() in three orders as exactly the logical content, for every value of content, opcode and inserted bytes", "DESIGN.md §4 C11"),
 "C12": ("the same logical content (all values symbolic) laid out by a specification-only encoder under the enumerated layouts - chunk partitions, none/xor per chunk, schema/channel placement and repetition, 12 orders of the summary groups, each optional part present or absent - is shown to be returned identically by lexer, non-indexed iterator, Info, index-entry access and Messages() in three orders; every encoder output is itself validated by the specification decoder", "DESIGN.md §4 C12"),
 "C18": ("ROS 1 BAG HALF ONLY: for bags built by a harness-side encoder with symbolic connection ids, topics, types, definitions, times and payloads the real Bag2MCAP output, decoded by the real lexer, is shown to hold one message per bag message in order with the same bytes, log = publish = secs*1e9+nsecs, sequence numbers 0,1,2.., channels carrying topic and header fields, one schema per distinct type/md5, and an error for connection ids above 65535; on arbitrary short inputs (and arbitrary header bytes inside a correctly framed record) Bag2MCAP and its header helpers are shown panic-free and exit-free. The db3 half is not decided (see level_note)", "DESIGN.md §4 C18"),
 "C19": ("the array-suffix kernel is shown panic-free and equal to its specification for every string up to the stated length; ParseMessageDefinition is shown to return the expected field tree, or an error for missing types and reference cycles, without unbounded recursion, on all 1331 definitions generated by three symbolic type selectors over an 11-entry menu (with and without comments/constants)", "DESIGN.md §4 C19"),
}

NA = {
 "C16": "half of the property executes in CPython; the Go-SSA engine cannot see it and the only installed Python symbolic executor (CrossHair) does not get through one record round trip; deciding it needs concrete differential execution, a different technique",
 "C17": "the quantifier ranges over a finite corpus of 416 concrete vectors and both tools are encoding/json+reflect+regexp+os programs the encoder cannot reach; running them is testing, not solver-based checking (the writer layout for that matrix is decided for all values in C05/C06)",
}
PENDING = "check not built yet in this session (planned, see DESIGN.md §4)"

props = [json.loads(l)["id"] for l in open("/verif/properties.jsonl")]
checks = []
for pid in props:
    if pid in CHECKS:
        text, ref = CHECKS[pid]
        checks.append({
            "property_id": pid,
            "quick_cmd": f"./check {pid} --tier quick",
            "thorough_cmd": f"./check {pid} --tier thorough",
            "evidence_file": f"/verif/evidence/{pid}.json",
            "replay_cmd_template": "./check --replay {path}",
            "engine": "symgo",
            "level_claimed": {"category": "model_checking", "text": "bounded, symbolic: " + text + ". Holds within the bounds listed in the evidence; nothing is claimed outside them.", "design_ref": ref},
            "level_note": NOTE + NOTES.get(pid, ""),
            "technique": TECH,
        })
na = [{"property_id": p, "reason": NA.get(p, PENDING)} for p in props if p not in CHECKS]
m = {
 "version": 1,
 "setup_cmd": "cd /verif/engine && GOFLAGS=-mod=mod GOPROXY=off GOSUMDB=off GOTOOLCHAIN=local go build -o /verif/bin/symgo . && sh /verif/harness/rt/gen.sh",
 "hooks": {"guard": "verif", "enable": "no source hooks: in-package harness files (//go:build verif) are injected by go/packages Overlay for the engine and by go test -overlay -tags verif for native replay; /repo is never edited by a check",
           "baseline_off_cmd": "for m in $(cat /w/out/gomods.txt); do MF=$(cd /repo/$m && . /w/out/goenv.sh && gomodflag); (cd /repo/$m && go test $MF -json -vet=off -count=1 -timeout 25m ./...); done",
           "source_commits": [], "add_only": True},
 "engines": [{"name": "symgo", "path": "/verif/engine", "serves_properties": sorted(CHECKS), "kind_free_text": "symbolic executor for go/ssa (written for this task) emitting SMT-LIB2 to live z3/cvc5 processes; native replay through go test -overlay"}],
 "checks": checks,
 "not_applicable": na,
 "notes": "fix: commits in /repo and known findings are listed in /verif/known_findings.txt; DESIGN.md describes bounds, stubs and what is outside each claim.",
}
json.dump(m, open("/verif/MANIFEST.json", "w"), indent=1)
print("claimed:", sorted(CHECKS), "not_applicable:", [x["property_id"] for x in na])
