#!/usr/bin/env python3
"""seedcheck.py <src_dir> <n> <seed_id> <prop> [more props...]
Confirm a seeded change (src_dir/patch<n>.diff + demo<n>_test.go + note<n>.md) in a scratch worktree:
  suite with the change passes (stable_pass list), demo fails with it and passes without it;
then apply it to /repo, run the quick checks of the given properties, and undo it straight afterwards.
Stores /verif/seeded/<seed_id>/{patch.diff, demo_test.go, note.md, meta.json}."""
import json, os, re, shutil, subprocess, sys, time
src, n, sid, props = sys.argv[1], sys.argv[2], sys.argv[3], sys.argv[4:]
env = dict(os.environ, GOPROXY='off', GOSUMDB='off', GOTOOLCHAIN='local'); env.pop('GOFLAGS', None)
patch = os.path.abspath(f'{src}/patch{n}.diff'); demo = os.path.abspath(f'{src}/demo{n}_test.go')
pkg = 'go/mcap'
txt = open(demo).read()
m = re.search(r'^package (\w+)', txt, re.M)
if m and m.group(1) == 'ros': pkg = 'go/ros'
if m and m.group(1) == 'ros1msg': pkg = 'go/ros/ros1msg'
tests = re.findall(r'^func (Test\w+)\(', txt, re.M)
runre = '^(' + '|'.join(tests) + ')$'
W = f'/tmp/sv/{sid}'
subprocess.run(['git', '-C', '/repo', 'worktree', 'remove', '--force', W], capture_output=True)
os.makedirs('/tmp/sv', exist_ok=True)
subprocess.run(['git', '-C', '/repo', 'worktree', 'add', '-q', '--detach', W, 'HEAD'], check=True)
meta = {'seed': sid, 'breaks_property': props[0], 'checked_properties': props, 'source': src, 'ran': []}
def run(cmd, cwd, **kw):
    p = subprocess.run(cmd, cwd=cwd, env=env, capture_output=True, text=True, **kw)
    return p.returncode, p.stdout + p.stderr
try:
    rc, out = run(['git', 'apply', patch], W)
    meta['applies'] = rc == 0
    if rc != 0:
        print('PATCH DOES NOT APPLY', out); raise SystemExit(2)
    rc, out = run(['go', 'build', './...'], f'{W}/{pkg}')
    meta['compiles'] = rc == 0
    rc, out = run(['python3', '/verif/tools/baseline.py'], W, ) if False else (None, None)
    e2 = dict(env, REPO_ROOT=W)
    p = subprocess.run(['python3', '/verif/tools/baseline.py'], env=e2, capture_output=True, text=True)
    meta['suite_with_change'] = p.stdout.strip().splitlines()[0] if p.stdout.strip() else p.stderr[-300:]
    meta['suite_passes_with_change'] = p.returncode == 0
    shutil.copy(demo, f'{W}/{pkg}/zz_seed_demo_test.go')
    rc, out = run(['go', 'test', '-vet=off', '-count=1', '-run', runre, '.'], f'{W}/{pkg}', timeout=900)
    meta['demo_fails_with_change'] = rc != 0
    run(['git', 'apply', '-R', patch], W)
    rc2, out2 = run(['go', 'test', '-vet=off', '-count=1', '-run', runre, '.'], f'{W}/{pkg}', timeout=900)
    meta['demo_passes_without_change'] = rc2 == 0
    meta['ran'] += [f'git apply patch.diff; python3 tools/baseline.py (REPO_ROOT=worktree); go test -run {runre} . (with and without the change) in {pkg}']
except BaseException:
    subprocess.run(['git', '-C', '/repo', 'worktree', 'remove', '--force', W], capture_output=True)
    raise
print(json.dumps({k: meta[k] for k in meta if k not in ('ran',)}, indent=1))
ok = meta.get('suite_passes_with_change') and meta.get('demo_fails_with_change') and meta.get('demo_passes_without_change')
if not ok:
    subprocess.run(['git', '-C', '/repo', 'worktree', 'remove', '--force', W], capture_output=True)
    print('SEED NOT CONFIRMED'); sys.exit(1)
# run the checks with the change applied. The machinery is pointed at the scratch worktree (VERIF_REPO) and writes
# its work/evidence under /tmp (VERIF_OUT): same code path as `git -C /repo apply` + ./check + `git checkout`, but
# /repo itself stays untouched so other work can go on. (Set SEED_ON_REPO=1 to do it literally on /repo.)
res = {}
try:
    os.remove(f'{W}/{pkg}/zz_seed_demo_test.go')
    subprocess.run(['git', 'apply', patch], cwd=W, check=True)
    e3 = dict(os.environ, VERIF_REPO=W, VERIF_OUT=f'/tmp/sv/out-{sid}')
    for pr in props:
        t0 = time.time()
        p = subprocess.run(['./check', pr, '--tier', 'quick'], cwd='/verif', capture_output=True, text=True, env=e3)
        lines = [l for l in p.stdout.splitlines() if l.startswith(('VIOLATION', 'KNOWN', 'ENGINE-MISMATCH', 'WITNESS', 'VACUOUS', 'INCONCLUSIVE', 'CHECK-BROKEN', '  detail'))]
        res[pr] = {'exit': p.returncode, 'caught': p.returncode == 1 and any(l.startswith('VIOLATION') for l in lines), 'wall_s': round(time.time() - t0, 1), 'lines': lines[:8]}
        print(pr, 'exit', p.returncode, 'caught' if res[pr]['caught'] else 'MISSED', *lines[:4], sep='\n  ')
finally:
    subprocess.run(['git', '-C', '/repo', 'worktree', 'remove', '--force', W], capture_output=True)
    shutil.rmtree(f'/tmp/sv/out-{sid}', ignore_errors=True)
meta['check_results'] = res
meta['ran'] += [f'(scratch worktree with patch.diff applied) VERIF_REPO=<worktree> ./check {pr} --tier quick' for pr in props]
d = f'/verif/seeded/{sid}'
os.makedirs(d, exist_ok=True)
shutil.copy(patch, f'{d}/patch.diff'); shutil.copy(demo, f'{d}/demo_test.go')
if os.path.exists(f'{src}/note{n}.md'): shutil.copy(f'{src}/note{n}.md', f'{d}/note.md')
note = open(f'{src}/note{n}.md').read() if os.path.exists(f'{src}/note{n}.md') else ''
meta['needs_to_manifest'] = note[:1500]
json.dump(meta, open(f'{d}/meta.json', 'w'), indent=1)
